package main

import (
	"bytes"
	"crypto/sha256"
	"encoding/base64"
	"encoding/hex"
	"encoding/json"
	"errors"
	"fmt"
	"io/fs"
	"os"
	"os/exec"
	"path/filepath"
	"sort"
	"strconv"
	"strings"
	"syscall"
	"time"
	"unicode/utf8"

	"crssim/simrt"
)

// ---------------------------------------------------------------------------
// file contents that survive JSON

// Data is file content. It is stored as text when it is valid UTF-8 and as
// base64 otherwise. With Macro set, tokens of the form <<rep:X:N>> expand to N
// copies of the string X (keeps replay files of the long-line scenarios small).
type Data struct {
	Text  string `json:"text,omitempty"`
	B64   string `json:"b64,omitempty"`
	Macro bool   `json:"macro,omitempty"`
}

func Text(s string) Data {
	if utf8.ValidString(s) {
		return Data{Text: s}
	}
	return Data{B64: base64.StdEncoding.EncodeToString([]byte(s))}
}

func Rep(x string, n int) string { return fmt.Sprintf("<<rep:%s:%d>>", x, n) }

func (d Data) Bytes() []byte {
	if d.B64 != "" {
		b, _ := base64.StdEncoding.DecodeString(d.B64)
		return b
	}
	if !d.Macro {
		return []byte(d.Text)
	}
	var out bytes.Buffer
	s := d.Text
	for {
		i := strings.Index(s, "<<rep:")
		if i < 0 {
			out.WriteString(s)
			break
		}
		j := strings.Index(s[i:], ">>")
		if j < 0 {
			out.WriteString(s)
			break
		}
		out.WriteString(s[:i])
		body := s[i+6 : i+j]
		k := strings.LastIndex(body, ":")
		n, _ := strconv.Atoi(body[k+1:])
		out.WriteString(strings.Repeat(body[:k], n))
		s = s[i+j+2:]
	}
	return out.Bytes()
}

// World is the initial durable state: files (paths relative to the sandbox
// root "w/") and empty directories.
type World struct {
	Files map[string]Data `json:"files"`
	Dirs  []string        `json:"dirs,omitempty"`
	// Links are symbolic links: path -> target (relative to the link's directory). Only C14 generates them.
	Links map[string]string `json:"links,omitempty"`
}

func NewWorld() *World { return &World{Files: map[string]Data{}} }

func (w *World) Put(path, content string) { w.Files[path] = Text(content) }

func (w *World) Clone() *World {
	c := NewWorld()
	for k, v := range w.Files {
		c.Files[k] = v
	}
	c.Dirs = append(c.Dirs, w.Dirs...)
	for k, v := range w.Links {
		if c.Links == nil {
			c.Links = map[string]string{}
		}
		c.Links[k] = v
	}
	return c
}

func (w *World) Hash() uint64 {
	keys := make([]string, 0, len(w.Files))
	for k := range w.Files {
		keys = append(keys, k)
	}
	sort.Strings(keys)
	h := sha256.New()
	for _, k := range keys {
		h.Write([]byte(k))
		h.Write([]byte{0})
		d := w.Files[k]
		h.Write([]byte(d.Text))
		h.Write([]byte(d.B64))
		h.Write([]byte{0})
	}
	for _, d := range w.Dirs {
		h.Write([]byte(d))
		h.Write([]byte{1})
	}
	s := h.Sum(nil)
	var x uint64
	for i := 0; i < 8; i++ {
		x = x<<8 | uint64(s[i])
	}
	return x
}

// ---------------------------------------------------------------------------
// steps and results

// Step is one invocation of the CLI as one real OS process.
type Step struct {
	Argv    []string          `json:"argv"`
	Cwd     string            `json:"cwd,omitempty"` // relative to the sandbox root
	Env     map[string]string `json:"env,omitempty"`
	Stdin   *Data             `json:"stdin,omitempty"`
	Version string            `json:"version,omitempty"` // value of the build-time version string
	NoVer   bool              `json:"no_version,omitempty"`
	Plan    simrt.Plan        `json:"plan"`
	Plain   bool              `json:"plain,omitempty"` // run the uninstrumented twin
	Race    bool              `json:"race,omitempty"`
	NoFile  int               `json:"nofile,omitempty"`   // RLIMIT_NOFILE of the child (0 = inherited)     // run the instrumented binary built with the race detector
	ExePath string            `json:"exe_path,omitempty"` // run a private copy of the binary at this path (relative to the sandbox root)
	UnsetCI bool              `json:"unset_ci,omitempty"`
}

type TraceEvent struct {
	Kind   string   // M, D, IO, NET
	Fields []string // unquoted
}

type Result struct {
	Exit     int
	Stdout   []byte
	Stderr   []byte
	Trace    []TraceEvent
	TimedOut bool
}

// WriteCalls lists the mutating I/O calls of the child as seen by the seam.
func (r *Result) WriteCalls() []string {
	var out []string
	for _, e := range r.Trace {
		if e.Kind != "IO" || len(e.Fields) < 2 {
			continue
		}
		switch e.Fields[0] {
		case "writefile", "create", "openfile-w", "remove", "removeall", "rename", "mkdir", "mkdirall":
			out = append(out, e.Fields[0]+" "+e.Fields[1])
		}
	}
	return out
}

// IOCalls returns "op path result" for every traced file call.
func (r *Result) IOCalls(op string) [][2]string {
	var out [][2]string
	for _, e := range r.Trace {
		if e.Kind == "IO" && len(e.Fields) >= 3 && e.Fields[0] == op {
			out = append(out, [2]string{e.Fields[1], e.Fields[2]})
		}
	}
	return out
}

type FileState struct {
	Type    string // f, d, l, o
	Size    int64
	Sha     string
	Mode    uint32
	MtimeNs int64
}

type Snapshot map[string]FileState

// Diff lists paths whose (type, size, sha, mode) differ; with mtime also the
// modification time (detects a rewrite with identical bytes).
func (a Snapshot) Diff(b Snapshot, mtime bool) []string {
	var out []string
	for p, x := range a {
		y, ok := b[p]
		if !ok {
			out = append(out, "-"+p)
			continue
		}
		if x.Type != y.Type || x.Size != y.Size || x.Sha != y.Sha || x.Mode != y.Mode || (mtime && x.Type == "f" && x.MtimeNs != y.MtimeNs) {
			out = append(out, "~"+p)
		}
	}
	for p := range b {
		if _, ok := a[p]; !ok {
			out = append(out, "+"+p)
		}
	}
	sort.Strings(out)
	return out
}

// ---------------------------------------------------------------------------
// sandbox

type MachineryError struct{ Msg string }

func (e MachineryError) Error() string { return e.Msg }

func machinery(format string, args ...any) {
	panic(MachineryError{fmt.Sprintf(format, args...)})
}

type Sim struct {
	BuildDir string
	Timeout  time.Duration
	Stats    *Stats
	seq      int
	// retryOnTimeout: a child that exceeds the watchdog aborts the evaluation of the scenario, which is then repeated
	// from its initial world with a longer watchdog (an overloaded machine must not look like a hanging program)
	retryOnTimeout bool
}

// watchdogRetry is the panic value that carries a watchdog expiry up to evalGuarded.
type watchdogRetry struct{}

// evalGuarded evaluates a scenario; when a child exceeds the watchdog the whole evaluation is repeated from the initial
// world with a three times longer watchdog, at most twice. A child that still does not finish is a hanging program, and
// its result (exit -1, timed out) is judged by the oracles like any other.
func evalGuarded(prop *Property, sc *Scenario, sim *Sim) (viol []Violation, nontrivial bool, key string) {
	base := sim.Timeout
	if base == 0 {
		base = 20 * time.Second
	}
	if ms := os.Getenv("CRSSIM_WATCHDOG_MS"); ms != "" { // test knob for the retry path
		if n, err := strconv.Atoi(ms); err == nil && n > 0 {
			base = time.Duration(n) * time.Millisecond
		}
	}
	defer func() { sim.Timeout, sim.retryOnTimeout = base, false }()
	sim.Timeout = base
	for attempt := 0; attempt < 3; attempt++ {
		retry := false
		func() {
			defer func() {
				if r := recover(); r != nil {
					if _, ok := r.(watchdogRetry); ok {
						retry = true
						return
					}
					panic(r)
				}
			}()
			sim.retryOnTimeout = attempt < 2
			viol, nontrivial, key = prop.Eval(sc, sim)
		}()
		if !retry {
			return
		}
		if sim.Stats != nil {
			sim.Stats.probe("watchdog-expired-scenario-repeated")
		}
		sim.Timeout *= 3
	}
	return
}

type Sandbox struct {
	sim  *Sim
	Root string // sandbox directory
	W    string // Root + "/w"
	n    int
}

var shmBase = func() string {
	if fi, err := os.Stat("/dev/shm"); err == nil && fi.IsDir() {
		return "/dev/shm"
	}
	return os.TempDir()
}()

func (s *Sim) NewSandbox(w *World) *Sandbox {
	s.seq++
	root, err := os.MkdirTemp(shmBase, fmt.Sprintf("crssim-%d-", os.Getpid()))
	if err != nil {
		machinery("mkdtemp: %v", err)
	}
	sb := &Sandbox{sim: s, Root: root, W: filepath.Join(root, "w")}
	for _, d := range []string{"w", "meta", "home", "tmp"} {
		if err := os.MkdirAll(filepath.Join(root, d), 0o755); err != nil {
			machinery("mkdir: %v", err)
		}
	}
	sb.materialise(w)
	return sb
}

func (sb *Sandbox) Close() { _ = os.RemoveAll(sb.Root) }

func (sb *Sandbox) materialise(w *World) {
	for _, d := range w.Dirs {
		if err := os.MkdirAll(filepath.Join(sb.W, d), 0o755); err != nil {
			machinery("mkdir: %v", err)
		}
	}
	paths := make([]string, 0, len(w.Files))
	for p := range w.Files {
		paths = append(paths, p)
	}
	sort.Strings(paths)
	// a fixed, old modification time so that a rewrite is visible in mtime
	old := time.Unix(1700000000, 0)
	for _, p := range paths {
		full := filepath.Join(sb.W, p)
		if err := os.MkdirAll(filepath.Dir(full), 0o755); err != nil {
			machinery("mkdir: %v", err)
		}
		if err := os.WriteFile(full, sb.expand(w.Files[p].Bytes()), 0o644); err != nil {
			machinery("write: %v", err)
		}
		_ = os.Chtimes(full, old, old)
	}
	links := make([]string, 0, len(w.Links))
	for p := range w.Links {
		links = append(links, p)
	}
	sort.Strings(links)
	for _, p := range links {
		full := filepath.Join(sb.W, p)
		if err := os.MkdirAll(filepath.Dir(full), 0o755); err != nil {
			machinery("mkdir: %v", err)
		}
		if err := os.Symlink(w.Links[p], full); err != nil {
			machinery("symlink: %v", err)
		}
	}
}

// expand substitutes the absolute path of the world directory for <<W>> (files and standard input that name absolute paths).
func (sb *Sandbox) expand(b []byte) []byte {
	if bytes.Contains(b, []byte("<<W>>")) {
		return bytes.ReplaceAll(b, []byte("<<W>>"), []byte(sb.W))
	}
	return b
}

// Restore puts the world back into its initial state.
func (sb *Sandbox) Restore(w *World) {
	_ = os.RemoveAll(sb.W)
	if err := os.MkdirAll(sb.W, 0o755); err != nil {
		machinery("mkdir: %v", err)
	}
	sb.materialise(w)
}

func (sb *Sandbox) Path(rel string) string { return filepath.Join(sb.W, rel) }

func (sb *Sandbox) Read(rel string) ([]byte, bool) {
	b, err := os.ReadFile(filepath.Join(sb.W, rel))
	return b, err == nil
}

func (sb *Sandbox) MustRead(rel string) []byte {
	b, _ := sb.Read(rel)
	return b
}

func (sb *Sandbox) Write(rel string, data []byte) {
	full := filepath.Join(sb.W, rel)
	_ = os.MkdirAll(filepath.Dir(full), 0o755)
	if err := os.WriteFile(full, data, 0o644); err != nil {
		machinery("write: %v", err)
	}
}

func (sb *Sandbox) Snap() Snapshot {
	snap := Snapshot{}
	err := filepath.WalkDir(sb.W, func(p string, d fs.DirEntry, err error) error {
		if err != nil {
			return err
		}
		rel, _ := filepath.Rel(sb.W, p)
		if rel == "." {
			return nil
		}
		info, err := d.Info()
		if err != nil {
			return err
		}
		st := FileState{Mode: uint32(info.Mode().Perm()), MtimeNs: info.ModTime().UnixNano()}
		switch {
		case d.IsDir():
			st.Type = "d"
		case info.Mode()&fs.ModeSymlink != 0:
			st.Type = "l"
			t, _ := os.Readlink(p)
			st.Sha = t
		case info.Mode().IsRegular():
			st.Type = "f"
			st.Size = info.Size()
			data, err := os.ReadFile(p)
			if err != nil {
				return err
			}
			sum := sha256.Sum256(data)
			st.Sha = hex.EncodeToString(sum[:])
		default:
			st.Type = "o"
		}
		snap[rel] = st
		return nil
	})
	if err != nil {
		machinery("snapshot: %v", err)
	}
	return snap
}

// OutsideFiles lists what exists in the child's HOME and TMPDIR (both inside the sandbox, outside the world).
func (sb *Sandbox) OutsideFiles() []string {
	var out []string
	for _, d := range []string{"home", "tmp"} {
		_ = filepath.WalkDir(filepath.Join(sb.Root, d), func(p string, de fs.DirEntry, err error) error {
			if err == nil && p != filepath.Join(sb.Root, d) {
				rel, _ := filepath.Rel(sb.Root, p)
				out = append(out, rel)
			}
			return nil
		})
	}
	sort.Strings(out)
	return out
}

func parseTrace(data []byte) []TraceEvent {
	var out []TraceEvent
	for _, line := range strings.Split(string(data), "\n") {
		if line == "" {
			continue
		}
		parts := strings.Split(line, "\t")
		ev := TraceEvent{Kind: parts[0]}
		for _, f := range parts[1:] {
			if strings.HasPrefix(f, "\"") {
				if u, err := strconv.Unquote(f); err == nil {
					f = u
				}
			}
			ev.Fields = append(ev.Fields, f)
		}
		out = append(out, ev)
	}
	return out
}

// Run executes one step as a real child process and returns what it did.
func (sb *Sandbox) Run(st Step) Result {
	sb.n++
	meta := filepath.Join(sb.Root, "meta")
	planPath := filepath.Join(meta, fmt.Sprintf("plan-%d.json", sb.n))
	tracePath := filepath.Join(meta, fmt.Sprintf("trace-%d", sb.n))
	pj, _ := json.Marshal(st.Plan)
	if err := os.WriteFile(planPath, pj, 0o644); err != nil {
		machinery("plan: %v", err)
	}
	bin := filepath.Join(sb.sim.BuildDir, "crs-sim")
	if st.Plain {
		bin = filepath.Join(sb.sim.BuildDir, "crs-plain")
	}
	if st.Race {
		bin = filepath.Join(sb.sim.BuildDir, "crs-race")
	}
	if st.ExePath != "" {
		bin = filepath.Join(sb.W, st.ExePath)
	}
	cmd := exec.Command(bin, st.Argv...)
	if st.NoFile > 0 {
		// resource fault: the child runs under a low limit of open files
		cmd = exec.Command("/bin/sh", append([]string{"-c", fmt.Sprintf("ulimit -n %d && exec \"$0\" \"$@\"", st.NoFile), bin}, st.Argv...)...)
	}
	cmd.Dir = filepath.Join(sb.W, st.Cwd)
	env := []string{
		"PATH=/usr/bin:/bin",
		"HOME=" + filepath.Join(sb.Root, "home"),
		"TMPDIR=" + filepath.Join(sb.Root, "tmp"),
		"TZ=UTC",
		"LANG=C",
		"GOTRACEBACK=none",
		"CRS_SIM_PLAN=" + planPath,
		"CRS_SIM_TRACE=" + tracePath,
	}
	if !st.UnsetCI {
		env = append(env, "CI=true")
	}
	if st.NoFile > 0 {
		// no garbage collection: a handle that is merely dropped is never closed by a finalizer (a legal behaviour of the runtime),
		// so a leak exhausts the limit deterministically instead of depending on when the collector happens to run
		env = append(env, "GOGC=off")
	}
	if !st.NoVer {
		v := st.Version
		if v == "" {
			v = "v0.0.0-dev"
		}
		env = append(env, "CRS_SIM_VERSION="+v)
	}
	keys := make([]string, 0, len(st.Env))
	for k := range st.Env {
		keys = append(keys, k)
	}
	sort.Strings(keys)
	for _, k := range keys {
		env = append(env, k+"="+st.Env[k])
	}
	cmd.Env = env
	if st.Stdin != nil {
		cmd.Stdin = bytes.NewReader(sb.expand(st.Stdin.Bytes()))
	}
	var stdout, stderr bytes.Buffer
	cmd.Stdout = &stdout
	cmd.Stderr = &stderr
	cmd.SysProcAttr = &syscall.SysProcAttr{Setpgid: true}
	res := Result{}
	if err := cmd.Start(); err != nil {
		if st.ExePath != "" {
			// the executable under test may have been replaced by something that does not run
			res.Exit = 126
			res.Stderr = []byte(err.Error())
			return res
		}
		machinery("start %s: %v", bin, err)
	}
	done := make(chan error, 1)
	go func() { done <- cmd.Wait() }()
	timeout := sb.sim.Timeout
	if timeout == 0 {
		timeout = 20 * time.Second
	}
	var werr error
	select {
	case werr = <-done:
	case <-time.After(timeout):
		_ = syscall.Kill(-cmd.Process.Pid, syscall.SIGKILL)
		<-done
		res.TimedOut = true
		if sb.sim.retryOnTimeout {
			panic(watchdogRetry{})
		}
	}
	res.Stdout = stdout.Bytes()
	res.Stderr = stderr.Bytes()
	if res.TimedOut {
		res.Exit = -1
	} else if werr != nil {
		var ee *exec.ExitError
		if errors.As(werr, &ee) {
			res.Exit = ee.ExitCode()
			if res.Exit < 0 {
				res.Exit = 128 // killed by a signal
			}
		} else {
			machinery("wait: %v", werr)
		}
	}
	if data, err := os.ReadFile(tracePath); err == nil {
		res.Trace = parseTrace(data)
	}
	_ = os.Remove(planPath)
	_ = os.Remove(tracePath)
	if res.Exit == 97 {
		machinery("child could not read its plan: %s", res.Stderr)
	}
	if sb.sim.Stats != nil {
		sb.sim.Stats.observe(&st, &res)
	}
	return res
}

func isDir(p string) bool {
	fi, err := os.Stat(p)
	return err == nil && fi.IsDir()
}

func isFile(p string) bool {
	fi, err := os.Stat(p)
	return err == nil && fi.Mode().IsRegular()
}
