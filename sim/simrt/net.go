package simrt

import (
	"bytes"
	"encoding/base64"
	"errors"
	"fmt"
	"io"
	"net/http"
	"strings"
)

// NetPlan is the simulated network: a table of canned answers (the driver
// renders its in-memory GitHub model into it) and the faults to inject.
type NetPlan struct {
	Routes []Route    `json:"routes,omitempty"`
	Faults []NetFault `json:"faults,omitempty"`
}

// Route answers GET requests whose URL (scheme://host/path, query ignored)
// equals URL.
type Route struct {
	// FromNth / UntilNth (1-based, 0 = unbounded) restrict the route to a range of requests to this URL:
	// a service whose content changes between two requests of one run.
	FromNth  int               `json:"from_nth,omitempty"`
	UntilNth int               `json:"until_nth,omitempty"`
	URL      string            `json:"url"`
	Status   int               `json:"status"`
	Header   map[string]string `json:"header,omitempty"`
	BodyB64  string            `json:"body_b64,omitempty"`
}

// NetFault hits the Nth request overall (1-based) when Nth > 0, otherwise the
// first request whose URL contains URLContains.
type NetFault struct {
	Nth         int    `json:"nth,omitempty"`
	URLContains string `json:"url_contains,omitempty"`
	// http403 | http404 | http500 | transport | cut | flip
	Kind string `json:"kind"`
	used bool
}

type simTransport struct {
	n      int
	perURL map[string]int
}

func installNet() {
	// The child must never touch a real socket or resolver, plan or no plan.
	http.DefaultTransport = &simTransport{}
}

type cutReader struct {
	r    io.Reader
	done bool
}

func (c *cutReader) Read(p []byte) (int, error) {
	n, err := c.r.Read(p)
	if err == io.EOF {
		return n, io.ErrUnexpectedEOF
	}
	return n, err
}

func (t *simTransport) RoundTrip(req *http.Request) (*http.Response, error) {
	mu.Lock()
	t.n++
	nth := t.n
	mu.Unlock()
	u := *req.URL
	u.RawQuery = ""
	u.Fragment = ""
	key := u.String()
	if plan.Net == nil {
		trace("NET", req.Method, req.URL.String(), "unreachable")
		return nil, errors.New("simnet: network is unreachable")
	}
	var fault *NetFault
	for i := range plan.Net.Faults {
		f := &plan.Net.Faults[i]
		if f.used {
			continue
		}
		if (f.Nth > 0 && f.Nth == nth) || (f.Nth == 0 && f.URLContains != "" && strings.Contains(key, f.URLContains)) {
			fault = f
			f.used = true
			break
		}
	}
	mk := func(status int, hdr map[string]string, body []byte) *http.Response {
		h := http.Header{}
		for k, v := range hdr {
			h.Set(k, v)
		}
		return &http.Response{
			StatusCode:    status,
			Status:        fmt.Sprintf("%d %s", status, http.StatusText(status)),
			Proto:         "HTTP/1.1",
			ProtoMajor:    1,
			ProtoMinor:    1,
			Header:        h,
			Body:          io.NopCloser(bytes.NewReader(body)),
			ContentLength: int64(len(body)),
			Request:       req,
		}
	}
	if fault != nil {
		switch fault.Kind {
		case "transport":
			trace("NET", req.Method, req.URL.String(), "FAULT:transport")
			return nil, errors.New("simnet: connection reset by peer")
		case "http403":
			trace("NET", req.Method, req.URL.String(), "FAULT:http403")
			return mk(403, map[string]string{"Content-Type": "application/json", "X-RateLimit-Remaining": "0"},
				[]byte(`{"message":"API rate limit exceeded"}`)), nil
		case "http404":
			trace("NET", req.Method, req.URL.String(), "FAULT:http404")
			return mk(404, map[string]string{"Content-Type": "application/json"}, []byte(`{"message":"Not Found"}`)), nil
		case "http500":
			trace("NET", req.Method, req.URL.String(), "FAULT:http500")
			return mk(500, map[string]string{"Content-Type": "application/json"}, []byte(`{"message":"Server Error"}`)), nil
		}
	}
	mu.Lock()
	if t.perURL == nil {
		t.perURL = map[string]int{}
	}
	t.perURL[key]++
	urlNth := t.perURL[key]
	mu.Unlock()
	for _, r := range plan.Net.Routes {
		if r.URL != key || req.Method != http.MethodGet {
			continue
		}
		if (r.FromNth > 0 && urlNth < r.FromNth) || (r.UntilNth > 0 && urlNth > r.UntilNth) {
			continue
		}
		body, _ := base64.StdEncoding.DecodeString(r.BodyB64)
		status := r.Status
		if status == 0 {
			status = 200
		}
		if fault != nil && fault.Kind == "flip" && len(body) > 0 {
			body = append([]byte(nil), body...)
			body[len(body)/2] ^= 0x01
			trace("NET", req.Method, req.URL.String(), "FAULT:flip")
			return mk(status, r.Header, body), nil
		}
		if fault != nil && fault.Kind == "cut" && len(body) > 0 {
			resp := mk(status, r.Header, body)
			resp.Body = io.NopCloser(&cutReader{r: bytes.NewReader(body[:len(body)/2])})
			trace("NET", req.Method, req.URL.String(), "FAULT:cut")
			return resp, nil
		}
		trace("NET", req.Method, req.URL.String(), status)
		return mk(status, r.Header, body), nil
	}
	trace("NET", req.Method, req.URL.String(), "noroute404")
	return mk(404, map[string]string{"Content-Type": "application/json"}, []byte(`{"message":"Not Found"}`)), nil
}
