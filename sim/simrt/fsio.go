package simrt

import (
	"io/fs"
	"os"
	"path/filepath"
	"strings"
	"syscall"
)

func faultFor(op, path string) *IOFault {
	if !planned {
		return nil
	}
	mu.Lock()
	defer mu.Unlock()
	for i := range plan.IOFaults {
		f := &plan.IOFaults[i]
		if f.Op != op || !strings.HasSuffix(path, f.PathSuffix) {
			continue
		}
		ioCount[i]++
		if f.Nth == 0 || f.Nth == ioCount[i] {
			return f
		}
	}
	return nil
}

func errnoFor(kind string) syscall.Errno {
	switch kind {
	case "eacces":
		return syscall.EACCES
	case "enoent":
		return syscall.ENOENT
	case "eio":
		return syscall.EIO
	case "eloop":
		return syscall.ELOOP
	case "erofs":
		return syscall.EROFS
	case "enospc":
		return syscall.ENOSPC
	case "eisdir":
		return syscall.EISDIR
	}
	return syscall.EIO
}

func result(err error) string {
	if err == nil {
		return "ok"
	}
	return err.Error()
}

// Open is the seam for os.Open.
func Open(name string) (*os.File, error) {
	if f := faultFor("open", name); f != nil {
		err := &fs.PathError{Op: "open", Path: name, Err: errnoFor(f.Kind)}
		trace("IO", "open", name, "FAULT:"+f.Kind)
		return nil, err
	}
	file, err := os.Open(name)
	trace("IO", "open", name, result(err))
	return file, err
}

// ReadFile is the seam for os.ReadFile.
func ReadFile(name string) ([]byte, error) {
	if f := faultFor("readfile", name); f != nil {
		err := &fs.PathError{Op: "read", Path: name, Err: errnoFor(f.Kind)}
		trace("IO", "readfile", name, "FAULT:"+f.Kind)
		return nil, err
	}
	data, err := os.ReadFile(name)
	trace("IO", "readfile", name, result(err))
	return data, err
}

// WriteFile is the seam for os.WriteFile. An "enospc" fault lets Arg bytes
// reach the (truncated) file before the error, as a full disk would; every
// other kind fails before the file is touched.
func WriteFile(name string, data []byte, perm os.FileMode) error {
	if f := faultFor("writefile", name); f != nil {
		if f.Kind == "enospc" {
			n := f.Arg
			if n > len(data) {
				n = len(data)
			}
			_ = os.WriteFile(name, data[:n], perm)
		}
		err := &fs.PathError{Op: "write", Path: name, Err: errnoFor(f.Kind)}
		trace("IO", "writefile", name, "FAULT:"+f.Kind)
		return err
	}
	err := os.WriteFile(name, data, perm)
	trace("IO", "writefile", name, result(err))
	return err
}

// Stat is the seam for os.Stat.
func Stat(name string) (os.FileInfo, error) {
	if f := faultFor("stat", name); f != nil {
		err := &fs.PathError{Op: "stat", Path: name, Err: errnoFor(f.Kind)}
		trace("IO", "stat", name, "FAULT:"+f.Kind)
		return nil, err
	}
	fi, err := os.Stat(name)
	trace("IO", "stat", name, result(err))
	return fi, err
}

// Mutating calls the repository does not use today; wrapped so that a future
// use still shows in the trace (write monitor of C15).

func Create(name string) (*os.File, error) {
	f, err := os.Create(name)
	trace("IO", "create", name, result(err))
	return f, err
}

func OpenFile(name string, flag int, perm os.FileMode) (*os.File, error) {
	f, err := os.OpenFile(name, flag, perm)
	op := "openfile"
	if flag&(os.O_WRONLY|os.O_RDWR|os.O_CREATE|os.O_TRUNC|os.O_APPEND) != 0 {
		op = "openfile-w"
	}
	trace("IO", op, name, result(err))
	return f, err
}

func Remove(name string) error {
	err := os.Remove(name)
	trace("IO", "remove", name, result(err))
	return err
}

func RemoveAll(name string) error {
	err := os.RemoveAll(name)
	trace("IO", "removeall", name, result(err))
	return err
}

func Rename(oldpath, newpath string) error {
	err := os.Rename(oldpath, newpath)
	trace("IO", "rename", oldpath+" -> "+newpath, result(err))
	return err
}

func Mkdir(name string, perm os.FileMode) error {
	err := os.Mkdir(name, perm)
	trace("IO", "mkdir", name, result(err))
	return err
}

func MkdirAll(name string, perm os.FileMode) error {
	err := os.MkdirAll(name, perm)
	trace("IO", "mkdirall", name, result(err))
	return err
}

// WalkDir is filepath.WalkDir with the order of every directory listing
// decided by the plan (identity = lexical, as the standard library).
func WalkDir(root string, fn fs.WalkDirFunc) error {
	info, err := os.Lstat(root)
	if err != nil {
		err = fn(root, nil, err)
	} else {
		err = walkDir(root, fs.FileInfoToDirEntry(info), fn)
	}
	if err == filepath.SkipDir || err == filepath.SkipAll {
		return nil
	}
	return err
}

func walkDir(path string, d fs.DirEntry, fn fs.WalkDirFunc) error {
	if err := fn(path, d, nil); err != nil || !d.IsDir() {
		if err == filepath.SkipDir && d.IsDir() {
			err = nil
		}
		return err
	}
	entries, err := os.ReadDir(path)
	if err != nil {
		err = fn(path, d, err)
		if err != nil {
			if err == filepath.SkipDir && d.IsDir() {
				err = nil
			}
			return err
		}
	}
	mu.Lock()
	dec, k := decision("walk", len(entries), plan.DirAll, plan.DirDefault, plan.DirOverrides, dirCount)
	mu.Unlock()
	perm := Permutation(len(entries), dec)
	if len(entries) >= 2 {
		if isIdentity(perm) {
			trace("D", "walk", path, len(entries), k, dec, "id")
		} else {
			trace("D", "walk", path, len(entries), k, dec, permString(perm))
		}
	}
	for _, idx := range perm {
		d1 := entries[idx]
		if err := walkDir(filepath.Join(path, d1.Name()), d1, fn); err != nil {
			if err == filepath.SkipDir {
				break
			}
			return err
		}
	}
	return nil
}

// Glob is filepath.Glob with the order of the result decided by the plan.
func Glob(pattern string) ([]string, error) {
	matches, err := filepath.Glob(pattern)
	if err != nil || len(matches) < 2 {
		trace("IO", "glob", pattern, len(matches))
		return matches, err
	}
	mu.Lock()
	dec, k := decision("glob", len(matches), plan.DirAll, plan.DirDefault, plan.DirOverrides, dirCount)
	mu.Unlock()
	perm := Permutation(len(matches), dec)
	out := make([]string, len(matches))
	for i, idx := range perm {
		out[i] = matches[idx]
	}
	trace("D", "glob", pattern, len(matches), k, dec, permString(perm))
	return out, nil
}
