package main

import (
	"encoding/json"
	"fmt"
	"regexp"
	"strings"
	"time"

	"pgregory.net/rapid"

	"crssim/simrt"
)

// C14 - update-copyright sets version and year everywhere, whatever was there before.
// Deciding observation: durable state carried across a sequence of invocations
// (markers written by run i must be recognised by run i+1).

// a segment of a generated .conf / .example file: literal text or a marker slot
type confSeg struct {
	Kind string `json:"k"` // text | version | short | year
	Text string `json:"x,omitempty"`
}

type C14File struct {
	Path string    `json:"path"`
	Segs []confSeg `json:"segs"`
}

type C14Run struct {
	Version string     `json:"version"`
	Year    string     `json:"year"`
	Plan    simrt.Plan `json:"plan"`
}

type C14Params struct {
	Root    string    `json:"root"` // name of the CRS root directory
	CRLF    bool      `json:"crlf"` // files use CRLF; a line keeps its content, its terminator may change
	Files   []C14File `json:"files"`
	Initial C14Run    `json:"initial"` // what the files show at the start
	Runs    []C14Run  `json:"runs"`
}

var c14Versions = []string{"4.1.0", "4.2.0", "3.3.5", "10.20.30", "4.2.0-rc1", "4.2.0-RC1", "4.2.0-rc.1", "v4.3.0", "4.4.0+build5", "4.5", "5.0.0-dev", "4.0.1-alpha-2", "4.6.0-rc2+build.7", "4.1.0+20260131.5114f85", "0.9.0", "v0.0.3-rc1", "0.10", "v4.1.0-12-g1a2b3c4", "4.2.0-rc2-3-gdeadbeef"}

func shortVersions(v string) []string {
	all := strings.Join(regexp.MustCompile(`[0-9]+`).FindAllString(v, -1), "")
	core := v
	core = strings.TrimPrefix(core, "v")
	if i := strings.IndexAny(core, "-+"); i >= 0 {
		core = core[:i]
	}
	parts := strings.Split(core, ".")
	for len(parts) < 3 {
		parts = append(parts, "0")
	}
	mmp := strings.Join(parts[:3], "")
	if mmp == all {
		return []string{all}
	}
	return []string{all, mmp}
}

func (f *C14File) render(v, y, short string) string {
	var sb strings.Builder
	for _, s := range f.Segs {
		switch s.Kind {
		case "text":
			sb.WriteString(s.Text)
		case "version":
			sb.WriteString(v)
		case "short":
			sb.WriteString(short)
		case "year":
			sb.WriteString(y)
		}
	}
	return sb.String()
}

func drawConfFile(t *rapid.T, label string) []confSeg {
	var segs []confSeg
	text := func(s string) { segs = append(segs, confSeg{Kind: "text", Text: s}) }
	slot := func(k string) { segs = append(segs, confSeg{Kind: k}) }
	bare := chance(t, 15, label+"-bare") // a minimal file: only the year and the short version markers, the word OWASP never occurs
	if bare {
		text("# Copyright (c) 2021-")
		slot("year")
		text(" " + pick(t, []string{"CRS", "Core Rule Set"}, label+"-crname2") + " project. All rights reserved.\n\nSecAction \\\n    \"id:900990,\\\n    phase:1,\\\n    pass,\\\n    setvar:tx.crs_setup_version=")
		slot("short")
		text("\"\n")
		return segs
	}
	if chance(t, 85, label+"-hdr") {
		text("# ------------------------------------------------------------------------\n")
		text("# OWASP " + pick(t, []string{"CRS", "ModSecurity Core Rule Set"}, label+"-name") + " ver.")
		slot("version")
		text("\n# Copyright (c) 2006-2020 Trustwave and contributors. All rights reserved.\n")
		if chance(t, 85, label+"-cr") {
			text("# Copyright (c) 2021-")
			slot("year")
			text(" " + pick(t, []string{"CRS", "Core Rule Set"}, label+"-crname") + " project. All rights reserved.\n")
		}
		text("#\n# The OWASP CRS is distributed under\n# Apache Software License (ASL) version 2\n# ------------------------------------------------------------------------\n\n")
	}
	n := drawInt(t, 0, 5, label+"-n")
	for i := 0; i < n; i++ {
		switch drawInt(t, 0, 6, label+"-kind") {
		case 0:
			text("SecComponentSignature \"OWASP_CRS/")
			slot("version")
			text("\"\n\n")
		case 1:
			text(fmt.Sprintf("SecRule ARGS \"@rx foo%d\" \\\n    \"id:9421%02d,\\\n    phase:2,\\\n    block,\\\n    ver:'OWASP_CRS/", i, i))
			slot("version")
			text("',\\\n    severity:'CRITICAL'\"\n\n")
		case 2:
			text(fmt.Sprintf("SecAction \\\n    \"id:9000%02d,\\\n    phase:1,\\\n    pass,\\\n    t:none,\\\n    nolog,\\\n    tag:'OWASP_CRS',\\\n    ver:'OWASP_CRS/", i))
			slot("version")
			text("',\\\n    setvar:tx.crs_setup_version=")
			slot("short")
			text("\"\n\n")
		case 3:
			// two markers on one line
			text("#SecAction \"id:900990,ver:'OWASP_CRS/")
			slot("version")
			text("',setvar:tx.crs_setup_version=")
			slot("short")
			text(",ver:'OWASP_CRS/")
			slot("version")
			text("'\"\n")
		case 5:
			if !chance(t, 25, label+"-longline") {
				text("# " + drawWord(t, 2, 8, label+"-w5") + "\n")
				break
			}
			// one very long line (more than 64 KiB) that is full of markers: wherever a reader cuts it, a marker is there
			text("SecAction \"id:900100,phase:1,pass,nolog,msg:'x'")
			for k := 0; k < 3300; k++ {
				text(",ver:'OWASP_CRS/")
				slot("version")
				text("'")
			}
			text(",setvar:tx.crs_setup_version=")
			slot("short")
			text("\"\n")
		case 4:
			// near misses that are no markers and must stay as they are
			text(pick(t, []string{
				"# the ver:\"OWASP_CRS/9.9.9\" spelling is not a marker\n",
				"SecComponentSignature \"OTHER_PRODUCT/1.2.3\"\n",
				"# Copyright (c) 2021-2022 Somebody else. All rights reserved.\n",
				"# setvar:tx.crs_setup_versions=123 is another variable\n",
				"  # OWASP CRS ver.0.0.1 (indented, hence not the header line)\n",
				"# see https://example.org/v1.2.3/ for 2021-2023 numbers\n",
			}, label+"-near"))
		default:
			text("# " + drawWord(t, 2, 8, label+"-w") + "\n")
		}
	}
	if chance(t, 20, label+"-nofinal") && len(segs) > 0 && segs[len(segs)-1].Kind == "text" {
		segs[len(segs)-1].Text = strings.TrimRight(segs[len(segs)-1].Text, "\n")
	}
	return segs
}

func genC14(t *rapid.T, tier string) (*World, any) {
	w := NewWorld()
	p := &C14Params{}
	p.Initial = C14Run{Version: pick(t, []string{"4.0.0", "3.3.2", "4.0.0-rc1"}, "v0"), Year: pick(t, []string{"2022", "2024"}, "y0")}
	p.Root = pick(t, []string{"crs", "crs", "crs", ".crs-build", "core.rule.set"}, "rootname")
	p.CRLF = chance(t, 10, "crlf")
	paths := []string{p.Root + "/crs-setup.conf.example", p.Root + "/rules/REQUEST-901-INITIALIZATION.conf", p.Root + "/rules/REQUEST-942-APPLICATION-ATTACK-SQLI.conf", p.Root + "/plugins/empty-after.conf", p.Root + "/.devcontainer/dev.conf", p.Root + "/plugins/empty-before.example",
		p.Root + "/crs-setup.conf", p.Root + "/rules/REQUEST-901-INITIALIZATION.conf.example"} // the working copy next to its example, the example next to its rules file
	n := drawInt(t, 1, 8, "nfiles")
	for i := 0; i < n; i++ {
		f := C14File{Path: paths[i], Segs: drawConfFile(t, fmt.Sprintf("f%d", i))}
		p.Files = append(p.Files, f)
		content := f.render(p.Initial.Version, p.Initial.Year, shortVersions(p.Initial.Version)[0])
		if p.CRLF {
			content = strings.ReplaceAll(content, "\n", "\r\n")
		}
		w.Put(f.Path, content)
	}
	// a rules file that is a symbolic link to a file with another name inside the root: read through its name it shows the markers too
	if chance(t, 12, "symlink") && len(p.Files) > 0 {
		f := C14File{Path: p.Root + "/rules/REQUEST-900-EXCLUSION-RULES-BEFORE-CRS.conf", Segs: drawConfFile(t, "linked")}
		content := f.render(p.Initial.Version, p.Initial.Year, shortVersions(p.Initial.Version)[0])
		if p.CRLF {
			content = strings.ReplaceAll(content, "\n", "\r\n")
		}
		w.Put(p.Root+"/local/exclusions-before.rules", content)
		if w.Links == nil {
			w.Links = map[string]string{}
		}
		w.Links[f.Path] = "../local/exclusions-before.rules"
		p.Files = append(p.Files, f)
	}
	w.Put(p.Root+"/regex-assembly/942100.ra", "foo\n")
	w.Put(p.Root+"/README.md", "# OWASP CRS ver.1.0.0\nver:'OWASP_CRS/1.0.0'\n")
	nr := drawInt(t, 1, 3, "nruns")
	for i := 0; i < nr; i++ {
		p.Runs = append(p.Runs, C14Run{Version: pick(t, c14Versions, "v"), Year: pick(t, []string{"2025", "2026", "2031", "1999", "2021"}, "y"), Plan: drawPlan(t, fmt.Sprintf("plan%d", i), true)})
	}
	return w, p
}

func evalC14(sc *Scenario, sim *Sim) ([]Violation, bool, string) {
	var p C14Params
	if err := json.Unmarshal(sc.Params, &p); err != nil {
		machinery("params: %v", err)
	}
	sb := sim.NewSandbox(sc.World)
	defer sb.Close()
	var viol []Violation
	history := func() string {
		var hs []string
		for _, r := range p.Runs {
			hs = append(hs, "-v "+r.Version+" -y "+r.Year)
		}
		return "initial " + p.Initial.Version + "/" + p.Initial.Year + "; " + strings.Join(hs, "; ")
	}
	add := func(oracle, what, msg, detail string) {
		viol = append(viol, Violation{Prop: "C14", Oracle: oracle, Sig: "C14/" + oracle + "/" + what, Msg: msg, Detail: detail + "\nhistory: " + history()})
	}
	run := func(r C14Run) Result {
		return sb.Run(Step{Argv: []string{"chore", "update-copyright", "-v", r.Version, "-y", r.Year}, Cwd: p.Root, Plan: r.Plan})
	}
	// which reading of "digits of tx.crs_setup_version" the files follow: -1 undecided, 0 all digits of V, 1 digits of major.minor.patch.
	// The statement does not choose between them, but one reading holds for the whole history.
	reading, readingRun := -1, -1
	matches := func(f *C14File, got string, r C14Run, ri int) bool {
		if p.CRLF {
			got = strings.ReplaceAll(got, "\r\n", "\n")
		}
		hasShort := false
		for _, sg := range f.Segs {
			if sg.Kind == "short" {
				hasShort = true
			}
		}
		shorts := shortVersions(r.Version)
		for k, short := range shorts {
			want := f.render(r.Version, r.Year, short)
			if got == want || got == want+"\n" {
				if hasShort && len(shorts) > 1 {
					if reading >= 0 && reading != k {
						add("markers-after-run", "setup-version-reading-changes", fmt.Sprintf("run %d (-v %s) writes tx.crs_setup_version=%s in %s, run %d (-v %s) followed the other reading (all digits of V / digits of major.minor.patch): the number is not one function of V",
							ri, r.Version, short, f.Path, readingRun, p.Runs[readingRun].Version), "")
					} else if reading < 0 {
						reading, readingRun = k, ri
					}
				}
				return true
			}
		}
		return false
	}
	otherBefore := string(sb.MustRead(p.Root + "/README.md"))
	for i, r := range p.Runs {
		res := run(r)
		if res.Exit != 0 {
			add("accepted-version", "rejected:"+versionClass(r.Version), fmt.Sprintf("run %d: `-v %s -y %s` failed (exit %d) although the version is a semantic version in a spelling the command documents", i, r.Version, r.Year, res.Exit), clip(res.Stderr))
			return viol, true, ""
		}
		for fi := range p.Files {
			f := &p.Files[fi]
			got := string(sb.MustRead(f.Path))
			if !matches(f, got, r, i) {
				prev := p.Initial.Version
				if i > 0 {
					prev = p.Runs[i-1].Version
				}
				want := f.render(r.Version, r.Year, shortVersions(r.Version)[0])
				add("markers-after-run", fmt.Sprintf("after:%s", versionClass(prev)),
					fmt.Sprintf("after run %d (-v %s -y %s; the markers showed %s before) %s does not show the new version and year in every marker with all other bytes untouched", i, r.Version, r.Year, prev, f.Path),
					fmt.Sprintf("got:\n%q\nexpected:\n%q", got, want))
				return viol, true, ""
			}
		}
	}
	// repeating the last invocation changes nothing
	last := p.Runs[len(p.Runs)-1]
	before := sb.Snap()
	res := run(last)
	after := sb.Snap()
	if res.Exit != 0 {
		add("idempotent", "exit", fmt.Sprintf("repeating the last invocation fails (exit %d)", res.Exit), clip(res.Stderr))
	}
	if d := before.Diff(after, false); len(d) > 0 {
		add("idempotent", "bytes", "repeating the last invocation changed bytes: "+strings.Join(d, " "), "")
	}
	if string(sb.MustRead(p.Root+"/README.md")) != otherBefore {
		add("markers-after-run", "other-file", "a file that is neither .conf nor .example was changed", "")
	}
	return viol, true, fmt.Sprintf("%x|%s", sc.World.Hash(), history())
}

func versionClass(v string) string {
	switch {
	case strings.HasPrefix(v, "v"):
		return "v-prefix"
	case strings.Contains(v, "+"):
		return "build-metadata"
	case regexp.MustCompile(`-[^+]*[A-Z]`).MatchString(v):
		return "uppercase-prerelease"
	case regexp.MustCompile(`-[^+]*\.`).MatchString(v):
		return "dotted-prerelease"
	case strings.Contains(v, "-"):
		return "prerelease"
	case strings.Count(v, ".") < 2:
		return "two-components"
	}
	return "plain"
}

func init() {
	register(&Property{
		ID: "C14", Level: "exploration",
		Rule: "scenario = 1-4 .conf / .example files rendered from a template whose marker slots the driver knows (header line in both product spellings, copyright end year in both spellings, ver:'OWASP_CRS/..', SecComponentSignature, tx.crs_setup_version; each 0-n times, two on one line; near-miss lines that are no markers; missing final newline; sometimes one of them a symbolic link to a differently named file inside the root) showing an initial version, x histories of 1-3 invocations with independent versions from the accepted spellings (x.y.z, -rc1, -RC1, -rc.1, v prefix, +build, -rc2+build.7, x.y, -dev, multi-dash) and four-digit years (2021, the first year of the range, among them), each under a seeded schedule. Oracle after every invocation: each file equals the template rendered with that invocation's version and year in every slot (crs_setup_version: all digits of V or the digits of major.minor.patch, one and the same reading for the whole history), all other bytes untouched (a missing final newline may be added); repeating the last invocation is a byte no-op; other files unchanged. Non-trivial = every scenario; distinct = distinct (world, history).",
		Gen:  genC14, Eval: evalC14,
		QuickChecks: 1000, ThoroughChecks: 20000, Timeout: 20 * time.Second,
		Assumptions: []string{
			"'shows V' means the version exactly as passed on the command line",
			"a missing final newline may be added (the repository's own test demands that); in CRLF worlds a line keeps its content while its terminator may become LF",
		},
		RealStub: realStubDefault,
	})
}
