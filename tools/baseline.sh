#!/bin/bash
# Runs the repository's pinned test suite (guard off: nothing of /verif is involved) and compares with BASELINE.json.
export GOFLAGS=-mod=mod GOPROXY=off GOSUMDB=off GOTOOLCHAIN=local
cd "${1:-/repo}" && go test -json -vet=off -count=1 -timeout 25m ./... 2>/dev/null | python3 -c '
import json,sys
base=set(json.load(open("/root/.vp/BASELINE.json"))["stable_pass"])
res={}
for l in sys.stdin:
    try: e=json.loads(l)
    except: continue
    if e.get("Test") and e.get("Action") in ("pass","fail","skip"):
        res[e["Package"]+"::"+e["Test"]]=e["Action"]
missing=[t for t in base if res.get(t)!="pass"]
print("baseline tests passing: %d / %d" % (len(base)-len(missing), len(base)))
for m in missing: print("  NOT PASSING:", m, res.get(m))
sys.exit(1 if missing else 0)
'
