#!/bin/bash
# usage: tools/mutant.sh <patch-or-sed-script.sh> <ID> [tier]   — runs a check against a scratch copy of /repo with a change applied
set -e
P="$(readlink -f "$1")"; ID="$2"; TIER="${3:-quick}"
D="$(mktemp -d /var/tmp/mutant.XXXXXX)"
trap 'rm -rf "$D"' EXIT
(cd /repo && git ls-files | rsync -a --files-from=- ./ "$D/")
(cd "$D" && git init -q . && git add -A >/dev/null && git -c user.email=a@b -c user.name=x commit -qm base)
case "$P" in
  *.sh) (cd "$D" && bash "$P") ;;
  *) (cd "$D" && git apply "$P") ;;
esac
(cd "$D" && git diff --stat | tail -1)
VERIF_REPO="$D" /verif/check "$ID" "$TIER" | grep -v '^  ' | cut -c1-400 | tail -8
echo "exit=${PIPESTATUS[0]}"
