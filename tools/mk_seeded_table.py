#!/usr/bin/env python3
"""Prints the markdown table of DESIGN.md section 9 from seeded/*/*/meta.json and seeded/RESULTS-*.txt."""
import json, glob, os, re
res = {}
for f in sorted(glob.glob('/verif/seeded/RESULTS-round*.txt')):
    for l in open(f):
        m = re.match(r'SEEDED (\S+) RESULT tests=(\d+) demo_clean=(\d+) demo_mut=(\d+) check_exit=(\d+)\s*(.*)', l.strip())
        if m:
            res.setdefault(m.group(1), []).append(m.groups()[1:])
print("| change | what it breaks / what it needs | confirmed (suite passes, demo fails with / passes without) | caught by (quick tier) |")
print("|---|---|---|---|")
for meta in sorted(glob.glob('/verif/seeded/C*/*/meta.json')):
    d = os.path.dirname(meta); key = '/'.join(d.split('/')[-2:])
    m = json.load(open(meta))
    what = (m.get('what_it_breaks','') or '')[:220].replace('|','\\|').replace('\n',' ')
    need = (m.get('needs_to_manifest','') or '')[:200].replace('|','\\|').replace('\n',' ')
    rs = res.get(key, [])
    if not rs:
        print(f"| {key} | {what} - needs: {need} | not run | - |"); continue
    last = rs[-1]
    ok = "yes" if (last[0]=="0" and last[1]=="0" and last[2]!="0") else f"tests={last[0]} clean={last[1]} changed={last[2]}"
    caught = []
    for r in rs:
        sig = re.sub(r'\[.*?\]','',r[4]).strip().split(' ')[0] if r[4] else ''
        note = re.search(r'\[(.*?)\]', r[4]); note = f" ({note.group(1)})" if note else ""
        caught.append(("`%s`" % sig if r[3]=="1" else "MISSED") + note)
    print(f"| {key} | {what} - needs: {need} | {ok} | {'; then '.join(caught)} |")
