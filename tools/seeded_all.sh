#!/bin/bash
# Runs tools/seeded.sh for every seeded change under /verif/seeded and prints one summary line each.
# usage: tools/seeded_all.sh [tier] [ID...]
TIER="${1:-quick}"; shift
IDS="${*:-$(ls /verif/seeded)}"
for id in $IDS; do
  for d in /verif/seeded/$id/*/; do
    [ -f "$d/patch.diff" ] || continue
    out="$(/verif/tools/seeded.sh "$d" "$id" "$TIER" 2>&1)"
    res="$(echo "$out" | grep '^RESULT' | tail -1)"
    sig="$(echo "$out" | grep 'signature:' | head -2 | sed 's/ *signature: //' | tr '\n' ' ')"
    echo "SEEDED $id/$(basename "$d") $res $sig"
  done
done
