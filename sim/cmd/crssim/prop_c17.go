package main

import (
	"bytes"
	"encoding/json"
	"fmt"
	"regexp"
	"strings"
	"time"

	"pgregory.net/rapid"

	"crssim/simrt"
)

// C17 - no silent truncation. The fault is an over-long line (scanner token
// overflow), enumerated over length x position x final newline x carrier x command.

type C17Params struct {
	Cell    string     `json:"cell"`
	Carrier string     `json:"carrier"`
	Cmd     string     `json:"cmd"`
	L       int        `json:"length"`
	Pos     string     `json:"position"` // first | middle | last
	FinalNL bool       `json:"final_newline"`
	Short   []string   `json:"short"` // the short lines around the long one (words)
	Plan    simrt.Plan `json:"plan"`
}

var c17Lengths = []int{1, 100, 4096, 65534, 65535, 65536, 65537, 70000, 262144, 1048576, 9437184}

var c17Carriers = []string{
	"ra-entry|generate", "ra-entry|generate-stdin", "ra-entry|format", "ra-entry|update",
	"ra-expanded-entry|generate", "ra-expanded-entry|generate-stdin", "ra-expanded-entry|update",
	"ra-prefix|generate", "ra-suffix|generate", "include-prefixed-entry|generate", "ra-entry-beside-definition|generate", "ra-entry-beside-definition|update",
	"ra-block-entry|generate", "ra-comment|generate", "ra-comment|generate-stdin", "ra-comment|update", "ra-comment|format",
	"include-entry|generate", "include-entry-pairs|generate", "include-except-F|generate", "include-except-X|generate",
	"yaml-payload|renumber", "conf-line|copyright", "rules-line|update",
	"conf-many-lines|copyright", // the same number of bytes as very many short lines: the size of the file, not of a line
}

func c17Cells(tier string) []string {
	var cells []string
	for _, c := range c17Carriers {
		for _, l := range c17Lengths {
			if l > 262144 && !(strings.HasPrefix(c, "ra-comment") || strings.HasPrefix(c, "yaml") || strings.HasPrefix(c, "conf") || strings.HasPrefix(c, "rules-line") || strings.HasPrefix(c, "include-except-X")) {
				continue // regex entries are capped (a 1 MiB literal makes the regex library itself slow)
			}
			if l > 1048576 && !(strings.HasPrefix(c, "yaml") || strings.HasPrefix(c, "conf") || strings.HasPrefix(c, "rules-line")) {
				continue // 9 MiB: only the rewriters of whole rules / test files
			}
			if strings.HasPrefix(c, "conf-many-lines") && l < 65536 {
				continue
			}
			for _, pos := range []string{"first", "middle", "last", "only"} {
				for _, nl := range []string{"nl", "nonl"} {
					cells = append(cells, fmt.Sprintf("%s|%d|%s|%s", c, l, pos, nl))
				}
			}
		}
	}
	return cells
}

// longToken builds the over-long content of exactly n bytes and its compact macro form.
func longToken(n int) (plain string, macro string) {
	unit := "abcdefghij"
	k := n / len(unit)
	rest := n % len(unit)
	plain = strings.Repeat(unit, k) + unit[:rest]
	macro = ""
	if k > 0 {
		macro = Rep(unit, k)
	}
	macro += unit[:rest]
	return
}

type c17Built struct {
	World    *World
	Argv     []string
	Stdin    string   // world path
	Target   string   // file rewritten (rewriters) or ""
	Words    []string // generate: every entry that must match the output (plain form)
	Lines    []string // rewriters: expected lines of the target after the command, plain form ("\x00" prefix = must merely be present unchanged)
	LongLine string
}

func place(short []string, long string, pos string) []string {
	switch pos {
	case "only":
		return []string{long}
	case "first":
		return append([]string{long}, short...)
	case "last":
		return append(append([]string{}, short...), long)
	}
	mid := len(short) / 2
	out := append([]string{}, short[:mid]...)
	out = append(out, long)
	return append(out, short[mid:]...)
}

func c17Build(p *C17Params) *c17Built {
	b := &c17Built{World: NewWorld()}
	w := b.World
	plain, macro := longToken(p.L)
	eof := func(lines []string) string {
		s := strings.Join(lines, "\n")
		if p.FinalNL {
			s += "\n"
		}
		return s
	}
	put := func(path string, macroLines []string) {
		w.Files[path] = Data{Text: eof(macroLines), Macro: true}
	}
	rules := "SecRule ARGS \"@rx stale\" \\\n    \"id:942100,\\\n    phase:2\"\n"
	w.Put("crs/rules/REQUEST-942-APPLICATION-ATTACK-SQLI.conf", rules)
	ra := "crs/regex-assembly/942100.ra"
	short := p.Short
	if p.Pos == "only" {
		short = nil
	}
	words := func(long string) []string { return place(short, long, p.Pos) }
	switch p.Carrier {
	case "ra-entry", "ra-block-entry", "ra-comment":
		longPlain, longMacro := plain, macro
		if p.Carrier == "ra-comment" {
			longPlain, longMacro = "##! "+plain, "##! "+macro
		}
		lp, lm := words(longPlain), words(longMacro)
		if p.Carrier == "ra-block-entry" {
			lp = append(append([]string{"##!> assemble"}, lp...), "##!<")
			lm = append(append([]string{"##!> assemble"}, lm...), "##!<")
		}
		put(ra, lm)
		b.Words = append([]string{}, short...)
		if p.Carrier != "ra-comment" {
			b.Words = append(b.Words, plain)
		}
		b.Lines = lp
		b.LongLine = longPlain
	case "ra-expanded-entry":
		// every source line is short enough; the entry grows to L bytes only when the definition is substituted (three times)
		third := p.L / 3
		if third < 1 {
			third = 1
		}
		pl, mc := longToken(third)
		lm := append([]string{"##!> define big " + mc}, words("{{big}}{{big}}{{big}}")...)
		put(ra, lm)
		b.Words = append(append([]string{}, short...), pl+pl+pl)
	case "ra-entry-beside-definition":
		// the file defines a name (used by a short entry); the long entry itself refers to nothing
		lm := append(append([]string{"##!> define dd x"}, words(macro)...), "a{{dd}}z")
		put(ra, lm)
		b.Words = append(append([]string{}, short...), plain, "axz")
	case "ra-prefix", "ra-suffix":
		// the long line is the prefix / suffix of the whole alternation
		sig := "##!^ "
		if p.Carrier == "ra-suffix" {
			sig = "##!$ "
		}
		put(ra, append([]string{sig + macro}, short...))
		for _, wd := range short {
			if p.Carrier == "ra-prefix" {
				b.Words = append(b.Words, plain+wd)
			} else {
				b.Words = append(b.Words, wd+plain)
			}
		}
		if len(short) == 0 {
			b.Words = []string{plain}
		}
	case "include-prefixed-entry":
		// the include file has a prefix of its own
		put("crs/regex-assembly/include/big.ra", append([]string{"##!^ pre"}, words(macro)...))
		w.Put(ra, "head\n##!> include big\ntail\n")
		for _, wd := range append(append([]string{}, short...), plain) {
			b.Words = append(b.Words, "pre"+wd)
		}
		b.Words = append(b.Words, "head", "tail")
	case "include-entry", "include-entry-pairs":
		put("crs/regex-assembly/include/big.ra", words(macro))
		inc := "##!> include big"
		b.Words = append(append([]string{}, short...), plain)
		if p.Carrier == "include-entry-pairs" {
			inc += " -- zzq zzr"
		}
		w.Put(ra, "head\n"+inc+"\ntail\n")
		b.Words = append(b.Words, "head", "tail")
	case "include-except-F":
		put("crs/regex-assembly/include/big.ra", words(macro))
		w.Put("crs/regex-assembly/exclude/ex.ra", "nothinghere\n")
		w.Put(ra, "head\n##!> include-except big ex\ntail\n")
		b.Words = append(append([]string{}, short...), plain, "head", "tail")
	case "include-except-X":
		// the long line sits in the exclude file; the short words after it in that file must still be excluded
		put("crs/regex-assembly/exclude/ex.ra", words(macro))
		w.Put("crs/regex-assembly/include/big.ra", strings.Join(short, "\n")+"\nkeepme\n")
		w.Put(ra, "head\n##!> include-except big ex\ntail\n")
		b.Words = []string{"head", "tail", "keepme"}
	case "yaml-payload":
		var lp, lm []string
		lp = append(lp, "---", "tests:")
		lm = append(lm, "---", "tests:")
		body := func(long string) []string {
			var out []string
			items := place(short, "\x01", p.Pos)
			n := 0
			for _, it := range items {
				if it == "\x01" {
					out = append(out, "      data: \""+long+"\"")
					continue
				}
				n++
				out = append(out, fmt.Sprintf("  - test_id: %d", n+40), "    desc: "+it)
			}
			return out
		}
		lm = append(lm, body(macro)...)
		put("crs/tests/regression/tests/REQUEST-942-APPLICATION-ATTACK-SQLI/942100.yaml", lm)
		b.Target = "crs/tests/regression/tests/REQUEST-942-APPLICATION-ATTACK-SQLI/942100.yaml"
		// expected: the same lines with ids 1..n
		exp := body(plain)
		n := 0
		for i, l := range exp {
			if strings.Contains(l, "test_id:") {
				n++
				exp[i] = fmt.Sprintf("  - test_id: %d", n)
			}
		}
		b.Lines = append(lp, exp...)
		b.LongLine = "      data: \"" + plain + "\""
	case "conf-line":
		mk := func(long string) []string {
			var out []string
			for _, it := range place(short, "\x01", p.Pos) {
				if it == "\x01" {
					out = append(out, "SecRule ARGS \"@rx "+long+"\" \\")
					continue
				}
				out = append(out, "# OWASP CRS ver.3.0.0", "# note "+it)
			}
			return out
		}
		w.Files["crs/rules/REQUEST-950-X.conf"] = Data{Text: eof(mk(macro)), Macro: true}
		b.Target = "crs/rules/REQUEST-950-X.conf"
		exp := mk(plain)
		for i, l := range exp {
			if l == "# OWASP CRS ver.3.0.0" {
				exp[i] = "# OWASP CRS ver.4.5.0"
			}
		}
		b.Lines = exp
		b.LongLine = "SecRule ARGS \"@rx " + plain + "\" \\"
	case "conf-many-lines":
		unit := "# filler filler"
		k := p.L / (len(unit) + 1)
		if k < 2 {
			k = 2
		}
		manyMacro := Rep(unit+"\n", k-1) + unit
		var lm, exp []string
		for _, it := range place(short, "\x01", p.Pos) {
			if it == "\x01" {
				lm = append(lm, manyMacro)
				for j := 0; j < k; j++ {
					exp = append(exp, unit)
				}
				continue
			}
			lm = append(lm, "# OWASP CRS ver.3.0.0", "# note "+it)
			exp = append(exp, "# OWASP CRS ver.4.5.0", "# note "+it)
		}
		// a marker at both ends of the file, whatever the position of the filler
		lm = append(append([]string{"# OWASP CRS ver.3.0.0"}, lm...), "SecComponentSignature \"OWASP_CRS/3.0.0\"")
		exp = append(append([]string{"# OWASP CRS ver.4.5.0"}, exp...), "SecComponentSignature \"OWASP_CRS/4.5.0\"")
		w.Files["crs/rules/REQUEST-950-X.conf"] = Data{Text: eof(lm), Macro: true}
		b.Target = "crs/rules/REQUEST-950-X.conf"
		b.Lines = exp
	case "rules-line":
		// a long line elsewhere in the rules file that update rewrites
		var lm, lp []string
		for _, it := range place(short, "\x01", p.Pos) {
			if it == "\x01" {
				lm = append(lm, "# "+macro)
				lp = append(lp, "# "+plain)
				continue
			}
			lm = append(lm, "# "+it)
			lp = append(lp, "# "+it)
		}
		pre := strings.Split(strings.TrimSuffix(rules, "\n"), "\n")
		w.Files["crs/rules/REQUEST-942-APPLICATION-ATTACK-SQLI.conf"] = Data{Text: eof(append(append([]string{}, lm...), pre...)), Macro: true}
		w.Put(ra, "fresh\n")
		b.Target = "crs/rules/REQUEST-942-APPLICATION-ATTACK-SQLI.conf"
		exp := append(append([]string{}, lp...), pre...)
		exp[len(lp)] = "SecRule ARGS \"@rx fresh\" \\"
		b.Lines = exp
		b.LongLine = "# " + plain
	}
	switch p.Cmd {
	case "generate":
		b.Argv = []string{"regex", "generate", "942100"}
	case "generate-stdin":
		b.Argv = []string{"regex", "generate", "-"}
		b.Stdin = ra
	case "format":
		b.Argv = []string{"regex", "format", "942100"}
		b.Target = ra
		b.Lines = append(strings.Split(strings.TrimSuffix(raHeader, "\n"), "\n"), append([]string{""}, b.Lines...)...)
	case "update":
		b.Argv = []string{"regex", "update", "942100"}
		if b.Target == "" {
			b.Target = "crs/rules/REQUEST-942-APPLICATION-ATTACK-SQLI.conf"
		}
	case "renumber":
		b.Argv = []string{"util", "renumber-tests", "942100"}
	case "copyright":
		b.Argv = []string{"chore", "update-copyright", "-v", "4.5.0", "-y", "2026"}
	}
	return b
}

func genC17(t *rapid.T, tier string) (*World, any) {
	parts := strings.Split(currentCell, "|")
	p := &C17Params{Cell: currentCell, Carrier: parts[0], Cmd: parts[1], Pos: parts[3], FinalNL: parts[4] == "nl"}
	fmt.Sscan(parts[2], &p.L)
	n := drawInt(t, 2, 5, "nshort")
	seen := map[string]bool{}
	for len(p.Short) < n {
		wd := "w" + drawWord(t, 2, 5, "short")
		if seen[wd] {
			wd += fmt.Sprint(len(p.Short))
		}
		seen[wd] = true
		p.Short = append(p.Short, wd)
	}
	p.Plan = drawPlan(t, "plan", false)
	return c17Build(p).World, p
}

func evalC17(sc *Scenario, sim *Sim) ([]Violation, bool, string) {
	var p C17Params
	if err := json.Unmarshal(sc.Params, &p); err != nil {
		machinery("params: %v", err)
	}
	b := c17Build(&p)
	sb := sim.NewSandbox(sc.World)
	defer sb.Close()
	st := Step{Argv: b.Argv, Cwd: "crs", Plan: p.Plan}
	if b.Stdin != "" {
		d := sc.World.Files[b.Stdin]
		st.Stdin = &d
	}
	r := sb.Run(st)
	var viol []Violation
	over := "short-line"
	if p.L >= 65000 {
		over = "line-of-64k-or-more"
	}
	add := func(what, msg, detail string) {
		viol = append(viol, Violation{Prop: "C17", Oracle: "complete-or-loud", Sig: fmt.Sprintf("C17/%s/%s/%s/%s", p.Carrier, p.Cmd, what, over), Msg: msg,
			Detail: detail + fmt.Sprintf("\ncell: %s (line of %d bytes, %s, final newline %v)\nshort lines: %q\nstderr: %s", p.Cell, p.L, p.Pos, p.FinalNL, p.Short, clip(r.Stderr))})
	}
	nontrivial := p.L >= 65000
	if r.Exit != 0 {
		sim.Stats.probe("loud")
		if p.L < 65000 {
			// a short line must simply work: a failure here is not what this property is about, but it would hide the check
			sim.Stats.probe("failed-below-limit")
		}
		return viol, nontrivial, p.Cell
	}
	sim.Stats.probe("completed")
	switch {
	case strings.HasPrefix(p.Cmd, "generate") || (p.Cmd == "update" && p.Carrier != "rules-line"):
		out := string(r.Stdout)
		if p.Cmd == "update" {
			// the regex written into the rules file
			data := sb.MustRead(b.Target)
			m := regexp.MustCompile(`(?s)"@rx (.*?)" \\\n`).FindSubmatch(data)
			if m == nil {
				add("operand-lost", "the rules file no longer has an @rx operand after update", "")
				return viol, nontrivial, p.Cell
			}
			out = string(m[1])
		}
		re, err := regexp.Compile(`^(?:` + out + `)$`)
		if err != nil {
			machinery("cannot compile generated regex (%d bytes): %v", len(out), err)
		}
		for _, wd := range b.Words {
			if !re.MatchString(wd) {
				name := wd
				if len(name) > 40 {
					name = fmt.Sprintf("<the long entry of %d bytes>", len(wd))
				}
				add("entry-dropped", fmt.Sprintf("exit 0 but entry %s is not matched by the generated regex (%d bytes)", name, len(out)), fmt.Sprintf("output starts with: %q", clip([]byte(out))))
				break
			}
		}
		if p.Carrier == "ra-comment" {
			// a comment is no entry, however long it is: the expression equals that of the same file with a short comment
			cp := p
			cp.L = 1
			cb := c17Build(&cp)
			csb := sim.NewSandbox(cb.World)
			cst := Step{Argv: cb.Argv, Cwd: "crs", Plan: p.Plan}
			if cb.Stdin != "" {
				d := cb.World.Files[cb.Stdin]
				cst.Stdin = &d
			}
			cr := csb.Run(cst)
			cout := string(cr.Stdout)
			if p.Cmd == "update" {
				if m := regexp.MustCompile(`(?s)"@rx (.*?)" \\\n`).FindSubmatch(csb.MustRead(cb.Target)); m != nil {
					cout = string(m[1])
				}
			}
			csb.Close()
			if cr.Exit == 0 && cout != out {
				add("comment-became-content", fmt.Sprintf("exit 0 but the expression (%d bytes) is not the one the same file gives with a one-byte comment (%d bytes)", len(out), len(cout)), fmt.Sprintf("with the short comment: %q\noutput starts with:     %q", clip([]byte(cout)), clip([]byte(out))))
			}
		}
		if p.Carrier == "include-except-X" {
			for _, wd := range p.Short {
				if re.MatchString(wd) {
					add("exclusion-dropped", fmt.Sprintf("exit 0 but %q, listed in the exclude file after the long line, was not excluded", wd), fmt.Sprintf("output: %q", clip([]byte(out))))
					break
				}
			}
		}
	default:
		data := sb.MustRead(b.Target)
		got := strings.Split(strings.TrimSuffix(string(data), "\n"), "\n")
		want := b.Lines
		if p.Cmd == "format" {
			// format drops trailing blank lines only; none are generated here
			for i := range got {
				got[i] = strings.TrimLeft(got[i], " ")
			}
			for i := range want {
				want[i] = strings.TrimLeft(want[i], " ")
			}
		}
		if len(got) != len(want) {
			add("lines-dropped", fmt.Sprintf("exit 0 but the rewritten file has %d lines instead of %d", len(got), len(want)), fmt.Sprintf("rewritten file starts with: %q", clip(data)))
		} else {
			for i := range want {
				if got[i] != want[i] {
					add("line-changed", fmt.Sprintf("exit 0 but line %d of the rewritten file is not what a complete rewrite gives", i+1),
						fmt.Sprintf("got: %q\nwant: %q", clip([]byte(got[i])), clip([]byte(want[i]))))
					break
				}
			}
		}
		if p.Cmd != "format" && p.Carrier != "rules-line" {
			if p.FinalNL != bytes.HasSuffix(data, []byte("\n")) && !bytes.HasSuffix(data, []byte("\n")) {
				add("final-newline", "the rewritten file lost its final newline", "")
			}
		}
	}
	return viol, nontrivial, p.Cell
}

func init() {
	register(&Property{
		ID: "C17", Level: "fault_enumeration",
		Rule: "cells = carrier/command in {entry in a rule file (generate, generate -, format, update), entry inside an assemble block, comment line (generate, format), entry in an include file, include with suffix pairs, include-except include file, exclude file, test payload line (renumber-tests), rule line in a .conf (update-copyright), comment line in the rules file (update)} x line length in {1, 100, 4096, 65534, 65535, 65536, 65537, 70000, 262144, 1048576, 9437184 (regex entries capped at 262144; the exclude-file line is only compared, never compiled, and goes up to 1 MiB; 9 MiB only for the rewriters of test and rules files; for update-copyright the same byte counts also as very many short lines)} x position {first, middle, last, the only line} x final newline {yes, no}; every cell is enumerated in every run with seeded short lines around the long one and a seeded schedule. Oracle: exit != 0 (loud), or complete: generate / update - every entry of the file, before and after the long line and the long one itself, is matched by the produced regex (and entries listed after the long line of an exclude file stay excluded); rewriters - the rewritten file has every line of a complete rewrite, the long line byte-identical. Non-trivial = the line is at least 65534 bytes long; distinct = distinct cells.",
		Gen:  genC17, Eval: evalC17,
		Cells: c17Cells,
		ChecksPerCell: func(tier string) int {
			if tier == "thorough" {
				return 8
			}
			return 3
		},
		Timeout: 90 * time.Second,
		Assumptions: []string{
			"entries are literal lower-case words, so membership in the produced regex is decided with Go's regexp",
			"regex entries are capped at 262144 bytes; 1 MiB lines are used on comment, payload and rule lines",
		},
		RealStub: realStubDefault,
	})
}
