package main

import (
	"bytes"
	"encoding/json"
	"fmt"
	"strings"
	"time"

	"pgregory.net/rapid"

	"crssim/simrt"
)

// C07 - definitions are pure textual substitution, independent of their order.
// The simulator contributes the schedules at the definition-map sites and the
// permutations of the definition lines; the oracle is a reference substitution.

type C07Params struct {
	// Variants are the same program with the definition lines at different positions.
	Variants []string `json:"variants"`
	// Expanded is the program with every reference substituted by the reference
	// model and the definition lines removed (it passes through no definition map at all).
	Expanded string       `json:"expanded"`
	Plans    []simrt.Plan `json:"plans"`
	Stdin    bool         `json:"stdin"`
	Defs     [][2]string  `json:"defs"`
	Where    []string     `json:"where"` // where references were placed (for the signature)
}

var defNamePool = []string{"alpha", "beta", "gam-ma", "d_4", "e5", "al", "alphabet", "x"}
var defNumPool = []string{"2", "3", "1,3"}
var defValuePool = []string{`[a-c]+`, `\d{2}`, `x{1,3}`, `(?:p|q)`, `\s*`, `z`, `[^\s]`, `\.`, `k\-m`, `"`, `[0-9]{2,}w`, `(?:ab|cd)+`, `\x5c`, `"[^"]*"`, `[$a-z_]+`, `x\$y`, `end$`, `\$1`, `[$\w]*`}

func genC07(t *rapid.T, tier string) (*World, any) {
	w := NewWorld()
	w.Dirs = append(w.Dirs, "crs/regex-assembly/include")
	p := &C07Params{}
	// definitions: acyclic - a definition may refer to definitions later in the topological order
	nd := drawInt(t, 0, 6, "ndefs")
	var names []string
	vals := map[string]string{}
	used := map[string]bool{}
	for i := 0; i < nd; i++ {
		n := pick(t, defNamePool, "defname")
		if used[n] {
			continue
		}
		used[n] = true
		names = append(names, n)
	}
	deep := chance(t, 6, "deepchain")
	if deep {
		// a chain of 12-20 definitions, each referring to the next (level13 sorts before level2)
		names = nil
		for k := 1; k <= drawInt(t, 12, 20, "deeplen"); k++ {
			names = append(names, fmt.Sprintf("level%d", k))
		}
	}
	for i := len(names) - 1; i >= 0; i-- {
		v := pick(t, defValuePool, "defval")
		// references to names later in the order (chains, diamonds)
		for j := i + 1; j < len(names); j++ {
			if (deep && j == i+1) || (!deep && chance(t, 35, "defref")) {
				if chance(t, 20, "defref-twice") {
					v = "{{" + names[j] + "}}" + v + "{{" + names[j] + "}}"
				} else if drawBool(t, "defref-front") {
					v = "{{" + names[j] + "}}" + v
				} else {
					v = v + "{{" + names[j] + "}}"
				}
			}
		}
		if chance(t, 12, "undef-in-value") {
			v += "{{nope}}" // an undefined name inside a value is literal text of that value
		}
		vals[names[i]] = v
	}
	// reference model: expand to a fixpoint, innermost (last) names first
	full := map[string]string{}
	for i := len(names) - 1; i >= 0; i-- {
		v := vals[names[i]]
		for j := i + 1; j < len(names); j++ {
			v = strings.ReplaceAll(v, "{{"+names[j]+"}}", full[names[j]])
		}
		full[names[i]] = v
	}
	expand := func(s string) string {
		for _, n := range names {
			s = strings.ReplaceAll(s, "{{"+n+"}}", full[n])
		}
		return s
	}
	for _, n := range names {
		p.Defs = append(p.Defs, [2]string{n, vals[n]})
	}
	refPool := append([]string{}, names...)
	refPool = append(refPool, "undefined-name", "nope", "inconly")
	where := map[string]bool{}
	ref := func(label, place string) string {
		if len(names) == 0 && !chance(t, 20, label+"-undef") {
			return ""
		}
		if !chance(t, 55, label) {
			return ""
		}
		where[place] = true
		return "{{" + pick(t, refPool, label+"-n") + "}}"
	}
	// a definition whose value is a number, used as a quantifier bound: x{{{num}}} is x{3}
	numName := ""
	if chance(t, 30, "numdef") && !used["num"] {
		numName = "num"
		v := pick(t, defNumPool, "numval")
		names = append(names, numName)
		vals[numName] = v
		full[numName] = v
		p.Defs = append(p.Defs, [2]string{numName, v})
		refPool = append(refPool, numName)
	}
	entry := func(label, place string) string {
		var sb strings.Builder
		if numName != "" && chance(t, 30, label+"-bound") {
			where["quantifier-bound"] = true
			return pick(t, []string{"[x-z]", "k", "(?:mn)"}, label+"-bb") + "{{{" + numName + "}}}" + pick(t, []string{"", "w"}, label+"-bt")
		}
		if chance(t, 8, label+"-quote") {
			sb.WriteString("'") // a quote at the start of an entry is a character like any other
		}
		n := drawInt(t, 1, 3, label+"-n")
		for i := 0; i < n; i++ {
			sb.WriteString(ref(label+"-r", place))
			sb.WriteString(pick(t, []string{"a", "b", "cd", "e1", `\.`, "f+", "[gh]", "_"}, label+"-lit"))
		}
		sb.WriteString(ref(label+"-rt", place))
		s := sb.String()
		return s
	}
	// body lines (no definition lines yet)
	var body []string
	if chance(t, 30, "flags") {
		body = append(body, "##!+ "+pick(t, []string{"i", "s", "is"}, "f"))
	}
	if chance(t, 40, "prefix") {
		body = append(body, "##!^ "+entry("pfx", "prefix"))
	}
	if chance(t, 40, "suffix") {
		body = append(body, "##!$ "+entry("sfx", "suffix"))
	}
	nb := drawInt(t, 1, 8, "nbody")
	depth := 0
	incUsed := false
	for i := 0; i < nb; i++ {
		ind := strings.Repeat("  ", depth)
		switch drawInt(t, 0, 9, "kind") {
		case 7:
			if depth < 2 {
				body = append(body, ind+"##!> assemble")
				depth++
				body = append(body, ind+"  "+entry("blk", "block"))
				continue
			}
		case 8:
			if depth > 0 {
				body = append(body, ind+"##!=>")
				body = append(body, ind+entry("cat", "block"))
				continue
			}
		case 9:
			if !incUsed {
				incUsed = true
				inc := []string{entry("inc", "include"), entry("inc2", "include")}
				var incDefs [][2]string
				if chance(t, 40, "incdefs") {
					// the included file has definitions of its own: they apply inside it and do not leak out;
					// a name defined in both files means the include's value inside the include
					incDefs = append(incDefs, [2]string{"inconly", pick(t, []string{"IV", "[0-9]", "m+"}, "incv")})
					if len(names) > 0 && chance(t, 50, "incshadow") {
						incDefs = append(incDefs, [2]string{names[0], pick(t, []string{"SH", "h?"}, "incsh")})
					}
					inc = append(inc, "w{{inconly}}")
					where["include-own-definitions"] = true
				}
				if chance(t, 25, "incpfx") {
					inc = append([]string{"##!^ " + entry("incp", "include-prefix")}, inc...)
				}
				var incFile []string
				for _, d := range incDefs {
					incFile = append(incFile, "##!> define "+d[0]+" "+d[1])
				}
				w.Put("crs/regex-assembly/include/words.ra", joinLines(append(incFile, inc...)))
				exp := make([]string, len(inc))
				for k, l := range inc {
					// the include's own definitions first, then the including file's
					for _, d := range incDefs {
						l = strings.ReplaceAll(l, "{{"+d[0]+"}}", d[1])
					}
					exp[k] = expand(l)
				}
				w.Put("crs/regex-assembly/include/words-expanded.ra", joinLines(exp))
				body = append(body, ind+"##!> include words")
				continue
			}
		}
		place := "entry"
		if depth > 0 {
			place = "block"
		}
		body = append(body, ind+entry("e", place))
	}
	for depth > 0 {
		depth--
		body = append(body, strings.Repeat("  ", depth)+"##!<")
	}
	// the reference program
	var exp []string
	for _, l := range body {
		if strings.TrimSpace(l) == "##!> include words" {
			exp = append(exp, strings.Replace(l, "words", "words-expanded", 1))
		} else {
			exp = append(exp, expand(l))
		}
	}
	p.Expanded = joinLines(exp)
	// variants: definition lines in different orders at different positions
	nv := 3
	if tier == "thorough" {
		nv = 6
	}
	defLines := make([]string, len(names))
	for i, n := range names {
		defLines[i] = "##!> define " + n + " " + vals[n]
	}
	firstBodyPos := 0
	for firstBodyPos < len(body) && strings.HasPrefix(body[firstBodyPos], "##!+") {
		firstBodyPos++
	}
	for v := 0; v < nv; v++ {
		lines := append([]string{}, body...)
		order := make([]int, len(defLines))
		for i := range order {
			order[i] = i
		}
		if v > 0 {
			// a seeded permutation of the definition lines
			perm := simrt.Permutation(len(order), decisionOf(drawInt(t, 0, 24, "defperm")))
			for i := range order {
				order[i] = perm[i]
			}
		}
		for _, di := range order {
			pos := 0
			if v > 0 {
				pos = drawInt(t, 0, len(lines), "defpos")
			}
			ind := ""
			if pos > 0 && pos <= len(lines) {
				prev := lines[pos-1]
				ind = prev[:len(prev)-len(strings.TrimLeft(prev, " "))]
			}
			lines = append(lines[:pos], append([]string{ind + defLines[di]}, lines[pos:]...)...)
		}
		p.Variants = append(p.Variants, joinLines(lines))
		if len(defLines) == 0 {
			break
		}
	}
	np := 2
	if tier == "thorough" {
		np = 5
	}
	for i := 0; i < np; i++ {
		p.Plans = append(p.Plans, drawPlan(t, fmt.Sprintf("plan%d", i), false))
	}
	p.Stdin = drawBool(t, "stdin")
	for _, k := range sortedKeys(where) {
		p.Where = append(p.Where, k)
	}
	return w, p
}

func evalC07(sc *Scenario, sim *Sim) ([]Violation, bool, string) {
	var p C07Params
	if err := json.Unmarshal(sc.Params, &p); err != nil {
		machinery("params: %v", err)
	}
	sb := sim.NewSandbox(sc.World)
	defer sb.Close()
	gen := func(text string, plan simrt.Plan) Result {
		if p.Stdin {
			d := Text(text)
			return sb.Run(Step{Argv: []string{"regex", "generate", "-"}, Cwd: "crs", Stdin: &d, Plan: plan})
		}
		sb.Write("crs/regex-assembly/942100.ra", []byte(text))
		return sb.Run(Step{Argv: []string{"regex", "generate", "942100"}, Cwd: "crs", Plan: plan})
	}
	ref := gen(p.Expanded, simrt.Plan{})
	var viol []Violation
	nontrivial := len(p.Defs) > 0 && ref.Exit == 0
	plans := append([]simrt.Plan{{}}, p.Plans...)
	for vi, variant := range p.Variants {
		for pi, plan := range plans {
			r := gen(variant, plan)
			if r.Exit == ref.Exit && bytes.Equal(r.Stdout, ref.Stdout) {
				continue
			}
			if r.Exit != 0 && ref.Exit != 0 {
				continue // both fail: the same failure, messages are not compared
			}
			viol = append(viol, Violation{
				Prop: "C07", Oracle: "substitution-model",
				Sig: fmt.Sprintf("C07/substitution/%s", strings.Join(p.Where, "+")),
				Msg: fmt.Sprintf("generate of the program with definitions (variant %d, schedule %d) differs from generate of the hand-expanded program", vi, pi),
				Detail: fmt.Sprintf("program:\n%s\nexpanded by the reference model:\n%s\nexit %d vs %d\ngot:      %q\nexpected: %q\nstderr: %s",
					variant, p.Expanded, r.Exit, ref.Exit, clip(r.Stdout), clip(ref.Stdout), clip(r.Stderr)),
			})
			return viol, nontrivial, ""
		}
	}
	return viol, nontrivial, fmt.Sprintf("%x|%s", sc.World.Hash(), string(sc.Params))
}

func init() {
	register(&Property{
		ID:          "C07",
		Level:       "exploration",
		Rule:        "scenario = program with 0-6 definitions forming an acyclic reference graph (chains, diamonds, unused names, names that are prefixes of each other, values with metacharacters and quantifier braces), references in entries, prefix / suffix lines, assemble blocks and included text, undefined names; 3 (quick) / 6 (thorough) variants with the definition lines permuted and moved to arbitrary positions (also into blocks) x identity + 2 / 5 seeded map-iteration schedules; oracle: stdout and exit of `regex generate` equal those of the program expanded by a 10-line reference substitution with the definition lines deleted. Non-trivial = at least one definition and the reference run compiles; distinct = distinct (world, variants, schedules).",
		Gen:         genC07,
		Eval:        evalC07,
		QuickChecks: 350, ThoroughChecks: 3500, Timeout: 20 * time.Second,
		Assumptions: []string{
			"computed names and duplicate definitions are excluded, as the property's quantifier says",
			"when both the program and its hand expansion fail to compile the runs count as equal (messages are not compared)",
		},
		RealStub: realStubDefault,
	})
}
