package main

import (
	"encoding/json"
	"fmt"
	"os"
	"path/filepath"
	"regexp"
	"sort"
	"strings"

	"pgregory.net/rapid"

	"crssim/simrt"
)

// ---------------------------------------------------------------------------
// small draw helpers (rapid is the only source of choices)

func drawInt(t *rapid.T, lo, hi int, label string) int {
	return rapid.IntRange(lo, hi).Draw(t, label)
}

func drawBool(t *rapid.T, label string) bool { return rapid.Bool().Draw(t, label) }

// chance is true with probability about pct/100; shrinks towards false.
func chance(t *rapid.T, pct int, label string) bool {
	return rapid.IntRange(0, 99).Draw(t, label) >= 100-pct
}

func pick[T any](t *rapid.T, xs []T, label string) T {
	return xs[rapid.IntRange(0, len(xs)-1).Draw(t, label)]
}

var lower = []string{"a", "b", "c", "d", "e", "f", "g", "h", "k", "m", "n", "o", "p", "r", "s", "t", "u", "x", "y", "z"}

func drawWord(t *rapid.T, min, max int, label string) string {
	n := drawInt(t, min, max, label+"-len")
	var sb strings.Builder
	for i := 0; i < n; i++ {
		sb.WriteString(pick(t, lower, label))
	}
	return sb.String()
}

// ---------------------------------------------------------------------------
// schedules

var mapSites = []string{ // refreshed from the instrumenter's report at start-up
	"operators.*Operator.complete#1",
	"parser.*Parser.parseLine#1",
	"parser.buildIncludeExceptString#1",
	"parser.expandDefinitions#1",
	"parser.expandDefinitions#2",
	"parser.expandDefinitions#3",
	"parser.replaceSuffixes#1",
}

// loadSites reads the seam sites of the tree under test from the instrumenter's report.
func loadSites(build string) {
	data, err := os.ReadFile(filepath.Join(build, "instrument.json"))
	if err != nil {
		return
	}
	var rep struct {
		MapSites []string `json:"map_sites"`
	}
	if json.Unmarshal(data, &rep) == nil && len(rep.MapSites) > 0 {
		mapSites = rep.MapSites
	}
}

func decisionOf(code int) int {
	switch {
	case code <= 9:
		return code // 0 identity, 1 reverse, 2..9 rotations
	default:
		return 1000 + code*7919 // seeded shuffle
	}
}

// drawPlan draws a schedule: a default decision for a random subset of the
// map-range sites plus a few per-event overrides. Everything shrinks to the
// identity schedule.
func drawPlan(t *rapid.T, label string, dirs bool) simrt.Plan {
	p := simrt.Plan{}
	style := drawInt(t, 0, 3, label+"-style")
	switch style {
	case 0: // one foreign order everywhere ("another hash function")
		p.MapAll = decisionOf(drawInt(t, 0, 24, label+"-all"))
	default: // a subset of the sites
		p.MapDefault = map[string]int{}
		for _, s := range mapSites {
			if drawBool(t, label+"-site-on") {
				p.MapDefault[s] = decisionOf(drawInt(t, 0, 24, label+"-site-d"))
			}
		}
	}
	nov := drawInt(t, 0, 4, label+"-nov")
	for i := 0; i < nov; i++ {
		p.MapOverrides = append(p.MapOverrides, simrt.Override{
			Site: pick(t, mapSites, label+"-ov-site"),
			K:    drawInt(t, 1, 40, label+"-ov-k"),
			D:    decisionOf(drawInt(t, 0, 24, label+"-ov-d")),
		})
	}
	if dirs {
		p.DirAll = decisionOf(drawInt(t, 0, 24, label+"-dir"))
	}
	// short reads on standard input (only commands that read it notice)
	if chance(t, 30, label+"-stdin") {
		n := drawInt(t, 1, 3, label+"-nchunks")
		for i := 0; i < n; i++ {
			p.StdinChunks = append(p.StdinChunks, pick(t, []int{1, 7, 512, 4096, 32768, 65536}, label+"-chunk"))
		}
	}
	return p
}

// ---------------------------------------------------------------------------
// regular-expression entries (RE2-safe, accepted by rassemble-go)

var atomPool = []string{"a", "b", "c", "d", "e", "o", "r", "s", "t", "x", "1", "2", "_",
	`\.`, `\-`, `\d`, `\w`, `\s`, `.`, `[a-c]`, `[^x-z]`, `[xyz]`, `[0-9]`}

// spicy atoms: quotes, backslashes, blanks, anchors - the characters the
// rules-file round trip and the escaping passes care about
var spicyPool = []string{`"`, `\\`, ` `, `\$`, `'`, `\x5c`, `@rx `, `" \\`, `"@rx `, `"!@rx `, `\"`, `%`, `/`, `:`, `=`}

func drawAtom(t *rapid.T, spicy bool, label string) string {
	if spicy && chance(t, 25, label+"-spicy") {
		return pick(t, spicyPool, label+"-sp")
	}
	return pick(t, atomPool, label)
}

func drawQuant(t *rapid.T, label string) string {
	switch drawInt(t, 0, 9, label) {
	case 6:
		return "+"
	case 7:
		return "*"
	case 8:
		return "?"
	case 9:
		return pick(t, []string{"{2}", "{1,3}", "{0,2}", "{2,}"}, label+"-b")
	}
	return ""
}

func drawEntry(t *rapid.T, spicy bool, label string) string {
	n := drawInt(t, 1, 6, label+"-n")
	var sb strings.Builder
	for i := 0; i < n; i++ {
		if chance(t, 12, label+"-grp") {
			k := drawInt(t, 2, 3, label+"-alts")
			alts := make([]string, k)
			for j := range alts {
				alts[j] = drawWord(t, 1, 3, label+"-alt")
			}
			sb.WriteString("(?:" + strings.Join(alts, "|") + ")")
			sb.WriteString(drawQuant(t, label+"-gq"))
			continue
		}
		a := drawAtom(t, spicy, label+"-atom")
		sb.WriteString(a)
		if len(a) <= 2 || strings.HasPrefix(a, "[") {
			if a != " " && a != `"` && a != "'" {
				sb.WriteString(drawQuant(t, label+"-q"))
			}
		}
	}
	s := sb.String()
	// an entry must not look like a directive, a blank line or carry leading blanks (the parser trims them)
	s = strings.TrimLeft(s, " \t")
	if s == "" || strings.HasPrefix(s, "##!") {
		s = "a" + s
	}
	return s
}

// ---------------------------------------------------------------------------
// rules files in CRS layout

type RuleSpec struct {
	ID     string   `json:"id"`
	Ops    []string `json:"ops"`    // operator of the rule itself and of each chained rule, e.g. "@rx", "!@rx", "@pm"
	Regex  []string `json:"regex"`  // current operand of each
	Indent []string `json:"indent"` // indentation of each SecRule line
}

// RuleFile is the structure behind a generated rules file: for every rule
// and chain link the exact byte span of its operand.
type RuleFile struct {
	Path    string     `json:"path"`
	Rules   []RuleSpec `json:"rules"`
	Content string     `json:"-"`
	// Spans[i][k] = [start,end) of the operand of rule i, chain link k, in Content
	Spans [][][2]int `json:"spans"`
}

// ruleVars are the variable parts of generated SecRule lines
var ruleVars = []string{"ARGS", "ARGS", "REQUEST_COOKIES|!REQUEST_COOKIES:/__utm/|ARGS_NAMES|ARGS|XML:/*", "ARGS_NAMES|ARGS:/^json\\.\\d+$/", "REQUEST_HEADERS:User-Agent", "TX:/^old/", "ARGS:/%5Bid%5D$/|ARGS:/%s/", "REQUEST_COOKIES:/^%24Version$/",
	"REQUEST_COOKIES|!REQUEST_COOKIES:/__utm/|!REQUEST_COOKIES:/_pk_ref/|REQUEST_COOKIES_NAMES|ARGS_NAMES|ARGS|XML:/*|REQUEST_HEADERS:User-Agent|REQUEST_HEADERS:Referer"}

type RulesOpts struct {
	Compact       []int // per rule (cycled): 1 = a rule without chain is written on two lines (SecRule line + one action line)
	MixedEOL      []int // per line (cycled): 1 = this line ends in CRLF although the file uses LF
	CRLF          bool
	NoFinalNL     bool
	IDComments    bool // comments that mention rule ids
	SharedPrefix  bool
	OtherOps      bool
	NegatedOps    bool
	WeirdOperands bool
	// Variety: per-line choices (variables, trailing blanks after the closing `" \`, tab indentation, SecAction / SecMarker lines between rules); index = running SecRule number
	Vars     []int
	Trailing []int
	Tabs     bool
	Between  []int
	// InChain: a comment line (a commented-out SecRule) in front of the chained SecRule with this running number
	InChain []int
	// IDNotFirst: rule i writes `"phase:2,id:NNNNNN,\` (the id action is on the line after the SecRule line, but not its first action)
	IDNotFirst []int
}

func renderRuleFile(rf *RuleFile, o RulesOpts, header string, commentFor func(i int) string) {
	var sb strings.Builder
	nl := "\n"
	if o.CRLF {
		nl = "\r\n"
	}
	sb.WriteString(header)
	rf.Spans = nil
	secNo := 0
	for i, r := range rf.Rules {
		if commentFor != nil {
			if c := commentFor(i); c != "" {
				sb.WriteString(c + nl)
			}
		}
		var spans [][2]int
		if i < len(o.Between) {
			switch o.Between[i] {
			case 1:
				sb.WriteString("SecAction \\" + nl + "    \"id:90000" + fmt.Sprint(i) + ",\\" + nl + "    phase:1,\\" + nl + "    pass,\\" + nl + "    nolog\"" + nl + nl)
			case 2:
				sb.WriteString("SecMarker \"BEGIN-" + r.ID + "\"" + nl + nl)
			}
		}
		for k := range r.Ops {
			ind := strings.Repeat("    ", k)
			if o.Tabs {
				ind = strings.Repeat("\t", k)
			}
			if k > 0 && secNo < len(o.InChain) && o.InChain[secNo] == 1 {
				sb.WriteString(ind + "# SecRule ARGS \"@rx disabled-link\" \\" + nl + ind + "#     \"t:none,chain\"" + nl)
			}
			v := "ARGS"
			if secNo < len(o.Vars) {
				v = ruleVars[o.Vars[secNo]%len(ruleVars)]
			}
			sb.WriteString(ind + "SecRule " + v + " \"" + r.Ops[k] + " ")
			start := sb.Len()
			sb.WriteString(r.Regex[k])
			spans = append(spans, [2]int{start, sb.Len()})
			sb.WriteString("\" \\")
			if secNo < len(o.Trailing) {
				sb.WriteString(strings.Repeat(" ", o.Trailing[secNo]))
			}
			sb.WriteString(nl)
			secNo++
			if len(r.Ops) == 1 && len(o.Compact) > 0 && o.Compact[i%len(o.Compact)] == 1 {
				sb.WriteString(ind + "    \"id:" + r.ID + ",phase:2,deny,msg:'compact'\"" + nl)
				continue
			}
			if k == 0 && i < len(o.IDNotFirst) && o.IDNotFirst[i] == 1 {
				sb.WriteString(ind + "    \"phase:2,id:" + r.ID + ",\\" + nl)
			} else if k == 0 {
				sb.WriteString(ind + "    \"id:" + r.ID + ",\\" + nl)
				sb.WriteString(ind + "    phase:2,\\" + nl)
				sb.WriteString(ind + "    block,\\" + nl)
				sb.WriteString(ind + "    msg:'rule " + r.ID + "',\\" + nl)
				sb.WriteString(ind + "    ver:'OWASP_CRS/4.0.0',\\" + nl)
			} else {
				sb.WriteString(ind + "    \"t:none,\\" + nl)
			}
			if k < len(r.Ops)-1 {
				sb.WriteString(ind + "    chain\"" + nl)
			} else {
				sb.WriteString(ind + "    severity:'CRITICAL'\"" + nl)
			}
		}
		sb.WriteString(nl)
	}
	s := sb.String()
	if len(o.MixedEOL) > 0 && !o.CRLF {
		// a file with LF line ends in which some lines end in CRLF (edited on another system)
		lines := strings.Split(s, "\n")
		for i := range lines {
			if i < len(lines)-1 && o.MixedEOL[i%len(o.MixedEOL)] == 1 {
				lines[i] += "\r"
			}
		}
		s = strings.Join(lines, "\n")
	}
	if o.NoFinalNL {
		s = strings.TrimRight(s, "\r\n")
	}
	rf.Content = s
	rf.Spans = rf.Spans[:0]
	// recompute spans on the final string (they are unaffected by trimming the end)
	pos := 0
	for _, r := range rf.Rules {
		var spans [][2]int
		for k := range r.Ops {
			needle := "\"" + r.Ops[k] + " " + r.Regex[k] + "\" \\"
			idx := strings.Index(s[pos:], needle)
			if idx < 0 {
				machinery("rules renderer lost an operand")
			}
			start := pos + idx + len(r.Ops[k]) + 2
			spans = append(spans, [2]int{start, start + len(r.Regex[k])})
			pos = start + len(r.Regex[k])
		}
		rf.Spans = append(rf.Spans, spans)
	}
}

// ---------------------------------------------------------------------------
// assembly programs

// ProgOpts selects the constructs a generated program may contain.
type ProgOpts struct {
	Spicy       bool
	Flags       bool
	PrefixSufx  bool
	Blocks      bool
	Cmdline     bool
	Defs        bool
	Includes    []string // names of include files that exist
	Excludes    []string // names of exclude files that exist
	Pairs       bool     // suffix replacement pairs on includes
	Ambiguous   bool     // lines that more than one directive pattern could claim
	Comments    bool
	MaxLines    int
	StoredNames bool
}

type ProgInfo struct {
	Lines      []string
	HasFlags   bool
	HasI       bool
	Defs       map[string]string
	UsedAmbig  bool
	UsedPairs  int
	UsedDefs   int
	UsedBlocks int
}

func drawPairs(t *rapid.T, label string) string {
	n := drawInt(t, 1, 3, label+"-n")
	var parts []string
	style := drawInt(t, 0, 3, label+"-style")
	switch style {
	case 0: // cascade a->b b->c
		keys := []string{"s", "t", "u", "x"}
		for i := 0; i < n; i++ {
			parts = append(parts, keys[i], keys[i+1])
		}
	case 1: // overlapping keys s / es
		ov := [][2]string{{"s", "z"}, {"es", "y"}, {"tes", "w"}}
		for i := 0; i < n; i++ {
			parts = append(parts, ov[i][0], ov[i][1])
		}
	default:
		used := map[string]bool{}
		for i := 0; i < n; i++ {
			k := drawWord(t, 1, 2, label+"-k")
			if used[k] {
				continue
			}
			used[k] = true
			v := drawWord(t, 1, 2, label+"-v")
			if chance(t, 20, label+"-empty") {
				v = `""`
			}
			parts = append(parts, k, v)
		}
	}
	return strings.Join(parts, " ")
}

// drawProgram draws a regex-assembly program as text lines.
func drawProgram(t *rapid.T, o ProgOpts, label string) *ProgInfo {
	info := &ProgInfo{Defs: map[string]string{}}
	max := o.MaxLines
	if max == 0 {
		max = 12
	}
	var lines []string
	add := func(s string) { lines = append(lines, s) }
	if o.Comments && chance(t, 40, label+"-hdr") {
		add("##! " + drawWord(t, 2, 6, label+"-c"))
	}
	if o.Flags && chance(t, 45, label+"-flags") {
		f := pick(t, []string{"i", "s", "is", "si"}, label+"-f")
		add("##!+ " + f)
		info.HasFlags = true
		info.HasI = strings.Contains(f, "i")
		if chance(t, 15, label+"-flags2") {
			add("##!+ " + pick(t, []string{"i", "s"}, label+"-f2"))
		}
	}
	var defNames []string
	if o.Defs && chance(t, 60, label+"-defs") {
		n := drawInt(t, 1, 4, label+"-ndef")
		for i := 0; i < n; i++ {
			name := pick(t, []string{"alpha", "beta", "gam-ma", "d_4", "e5"}, label+"-dn")
			if _, dup := info.Defs[name]; dup {
				continue
			}
			val := pick(t, []string{`[a-c]+`, `\d{2}`, `x{1,3}`, `(?:p|q)`, `\s*`, `z`, `[^\s]`}, label+"-dv")
			// later definitions may refer to earlier ones (acyclic)
			if len(defNames) > 0 && chance(t, 40, label+"-dref") {
				val = val + "{{" + pick(t, defNames, label+"-dr") + "}}"
			}
			info.Defs[name] = val
			defNames = append(defNames, name)
			add("##!> define " + name + " " + val)
		}
	}
	if o.PrefixSufx && chance(t, 30, label+"-pfx") {
		add("##!^ " + pick(t, []string{`\b`, `^`, `(?:x|y)`, `pre`}, label+"-pv"))
	}
	if o.PrefixSufx && chance(t, 30, label+"-sfx") {
		add("##!$ " + pick(t, []string{`\b`, `$`, `[^a-z]`, `post`}, label+"-sv"))
	}
	entry := func(lbl string) string {
		e := drawEntry(t, o.Spicy, lbl)
		if len(defNames) > 0 && chance(t, 35, lbl+"-ref") {
			e += "{{" + pick(t, defNames, lbl+"-rn") + "}}"
			info.UsedDefs++
		}
		if info.HasI {
			e = strings.ToLower(e)
		}
		return e
	}
	n := drawInt(t, 1, max, label+"-n")
	depth := 0
	stored := []string{}
	for i := 0; i < n; i++ {
		ind := strings.Repeat("  ", depth)
		kind := drawInt(t, 0, 19, label+"-kind")
		switch {
		case kind <= 9:
			add(ind + entry(label+"-e"))
		case kind == 10 && o.Comments:
			if o.Ambiguous && chance(t, 50, label+"-cmsigil") {
				// comments whose text starts with a directive sigil: still comments
				add(ind + "##! " + pick(t, []string{"+ i", "+ bullet", "^ note", "$ note", "> assemble", "> include inc1", "< end", "=> x", "=< y", "+", "^", "$"}, label+"-cmsig"))
				info.UsedAmbig = true
			} else {
				add(ind + "##! " + drawWord(t, 1, 5, label+"-cm"))
			}
		case kind == 11 && o.Comments:
			add("")
		case kind == 12 && o.Blocks && depth < 3:
			add(ind + "##!> assemble")
			depth++
			info.UsedBlocks++
			add(ind + "  " + entry(label+"-be"))
		case kind == 13 && o.Blocks && depth > 0:
			depth--
			add(strings.Repeat("  ", depth) + "##!<")
		case kind == 14 && o.Blocks && depth > 0:
			add(ind + "##!=>")
			add(ind + entry(label+"-ae"))
		case kind == 15 && o.Cmdline && depth < 3:
			add(ind + "##!> cmdline " + pick(t, []string{"unix", "windows"}, label+"-ct"))
			k := drawInt(t, 1, 3, label+"-cw")
			var cw []string
			for j := 0; j < k; j++ {
				w := drawWord(t, 2, 5, label+"-cword")
				w += pick(t, []string{"", "", "@", "~", "@~", "~@"}, label+"-cm")
				add(ind + "  " + w)
				cw = append(cw, w)
			}
			if chance(t, 30, label+"-cdup") {
				add(ind + "  " + cw[0]) // the same command listed twice
			}
			add(ind + "##!<")
			info.UsedBlocks++
		case kind == 16 && len(o.Includes) > 0:
			l := ind + "##!> include " + pick(t, o.Includes, label+"-inc")
			if o.Pairs && chance(t, 50, label+"-ip") {
				l += " -- " + drawPairs(t, label+"-pairs")
				info.UsedPairs++
			}
			add(l)
		case kind == 17 && len(o.Includes) > 0 && len(o.Excludes) > 0:
			l := ind + "##!> include-except " + pick(t, o.Includes, label+"-inc") + " " + pick(t, o.Excludes, label+"-exc")
			if chance(t, 30, label+"-exc2") {
				l += " " + pick(t, o.Excludes, label+"-exc2n")
			}
			if o.Pairs && chance(t, 50, label+"-iep") {
				l += " -- " + drawPairs(t, label+"-pairs")
				info.UsedPairs++
			}
			add(l)
		case kind == 18 && o.StoredNames && depth > 0:
			name := pick(t, []string{"st1", "st2"}, label+"-sn")
			add(ind + "##!=< " + name)
			stored = append(stored, name)
			add(ind + entry(label+"-se"))
		case kind == 19 && o.StoredNames && depth > 0 && len(stored) > 0:
			add(ind + "##!=> " + pick(t, stored, label+"-on"))
			add(ind + entry(label+"-oe"))
		case o.Ambiguous && kind >= 16 && len(o.Includes) > 0:
			// lines that several directive patterns could claim
			inc := pick(t, o.Includes, label+"-ainc")
			add(ind + pick(t, []string{
				"##!+ i ##!> include " + inc,
				"##!^ p ##!> include " + inc,
				"##!$ q ##!> include " + inc,
				"##! ##!> include " + inc,
				"##!> define nm ##!>include " + inc,
				"foo ##!> include " + inc,
			}, label+"-amb"))
			info.UsedAmbig = true
		default:
			add(ind + entry(label+"-e2"))
		}
	}
	for depth > 0 {
		depth--
		add(strings.Repeat("  ", depth) + "##!<")
	}
	info.Lines = lines
	return info
}

func joinLines(lines []string) string { return strings.Join(lines, "\n") + "\n" }

// drawWordList draws an include file made of plain words.
func drawWordList(t *rapid.T, min, max int, label string, endings []string) []string {
	n := drawInt(t, min, max, label+"-n")
	var out []string
	for i := 0; i < n; i++ {
		w := drawWord(t, 1, 4, label+"-w")
		if len(endings) > 0 && chance(t, 50, label+"-end") {
			w += pick(t, endings, label+"-e")
		}
		out = append(out, w)
	}
	return out
}

func sortedKeys[V any](m map[string]V) []string {
	ks := make([]string, 0, len(m))
	for k := range m {
		ks = append(ks, k)
	}
	sort.Strings(ks)
	return ks
}

// ruleNameRe is the file-name grammar of the statement: NNNNNN[-chainK].ra
var ruleNameRe = regexp.MustCompile(`^[0-9]{6}(-chain[0-9]+)?\.ra$`)

func sprintf(format string, args ...any) string { return fmt.Sprintf(format, args...) }

func lastOf(lines []string) string {
	if len(lines) == 0 {
		return ""
	}
	return lines[len(lines)-1]
}
