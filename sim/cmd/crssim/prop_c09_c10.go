package main

import (
	"bytes"
	"encoding/json"
	"fmt"
	"strings"
	"time"

	"pgregory.net/rapid"

	"crssim/simrt"
)

// C09 - format produces one canonical layout, is idempotent, --check agrees.
// C10 - format never changes what a file means or says.
// Both are relations between durable states / outputs along a history of
// invocations over one disk; each step runs under its own schedule.

const raHeader = "##! Please refer to the documentation at\n##! https://coreruleset.org/docs/development/regex_assembly/.\n"

type FmtFile struct {
	Path     string   `json:"path"` // world path of the file under test
	Arg      string   `json:"arg"`  // argument for `regex format` / `regex generate`
	IsInc    bool     `json:"is_include"`
	Canon    string   `json:"canon,omitempty"` // reference rendering ("" for token soup)
	HasFlags bool     `json:"has_flags"`
	Mode     string   `json:"mode"` // structured | soup | boundary
	Features []string `json:"features"`
}

type FmtParams struct {
	File  FmtFile      `json:"file"`
	Plans []simrt.Plan `json:"plans"` // one per step, cycled
	// Includer: for an include file under test, the rule file that includes it (C10 runs generate on it)
	Includer string `json:"includer,omitempty"`
	// spellings of the check switch on the command line: FormatFlag is "" or an explicit false value, CheckFlag a true one
	FormatFlag string `json:"format_flag,omitempty"`
	CheckFlag  string `json:"check_flag,omitempty"`
}

func ws(t *rapid.T, label string, atLeastOne bool) string {
	n := drawInt(t, 0, 3, label)
	if atLeastOne && n == 0 {
		n = 1
	}
	var sb strings.Builder
	for i := 0; i < n; i++ {
		if chance(t, 25, label+"-tab") {
			sb.WriteString("\t")
		} else {
			sb.WriteString(" ")
		}
	}
	return sb.String()
}

// drawFmtBody draws a structured program body as (canonical lines, noisy lines).
func drawFmtBody(t *rapid.T, noisy bool, feat map[string]bool, maxLines int) (canon, noise []string, hasFlags bool) {
	depth := 0
	lead := func() string {
		if !noisy {
			return strings.Repeat("  ", depth)
		}
		return ws(t, "lead", false)
	}
	gap := func() string { // spacing after a marker / keyword
		if !noisy || !chance(t, 40, "gapx") {
			return " "
		}
		return " " + ws(t, "gap", false)
	}
	trail := func() string {
		if !noisy || !chance(t, 25, "trailx") {
			return ""
		}
		return ws(t, "trail", true)
	}
	ind := func() string { return strings.Repeat("  ", depth) }
	emit := func(c, n string) { canon = append(canon, c); noise = append(noise, n) }
	if chance(t, 30, "flags") {
		f := pick(t, []string{"i", "s", "is"}, "fl")
		emit("##!+ "+f, lead()+"##!+"+gap()+f+trail())
		hasFlags = true
		feat["flags"] = true
	}
	if chance(t, 10, "deep") {
		// deep nesting right away: the indentation rule has no depth limit
		k := drawInt(t, 4, 7, "deep-k")
		for j := 0; j < k; j++ {
			if chance(t, 70, "deep-asm") {
				emit(ind()+"##!> assemble", lead()+"##!>"+gap()+"assemble"+trail())
			} else {
				emit(ind()+"##!> cmdline unix", lead()+"##!>"+gap()+"cmdline"+gap()+"unix"+trail())
			}
			depth++
		}
		e := drawEntry(t, false, "deep-e")
		emit(ind()+e, lead()+e)
		feat["deep-nesting"] = true
	}
	n := drawInt(t, 0, maxLines, "nlines")
	for i := 0; i < n; i++ {
		switch drawInt(t, 0, 15, "kind") {
		case 0:
			c := "##! " + drawWord(t, 1, 6, "cw")
			emit(ind()+c, lead()+c)
			feat["comment"] = true
		case 1:
			if noisy && chance(t, 50, "blankws") {
				emit("", ws(t, "blank", true))
			} else {
				emit("", "")
			}
			feat["blank"] = true
		case 2:
			v := pick(t, []string{`\b`, `pre`, `(?:a|b)`, `^x`, `a  b`, "x\ty", `Content-Type:  x`}, "pv")
			emit("##!^ "+v, lead()+"##!^"+gap()+v+trail())
			feat["prefix"] = true
		case 3:
			v := pick(t, []string{`\b`, `post`, `[^a-z]`, `x$`, `;  q`, "y\t z"}, "sv")
			emit("##!$ "+v, lead()+"##!$"+gap()+v+trail())
			feat["suffix"] = true
		case 4:
			nm := pick(t, []string{"alpha", "be-ta", "g_3"}, "dn")
			v := pick(t, []string{`[a-c]+`, `\d{2}`, `z`}, "dv")
			emit(ind()+"##!> define "+nm+" "+v, lead()+"##!>"+gap()+"define"+gap()+nm+gap()+v+trail())
			feat["define"] = true
		case 5:
			inc := pick(t, []string{"inc1", "inc2", "sql--kw", "a-b"}, "in")
			c := "##!> include " + inc
			nn := lead() + "##!>" + gap() + "include" + gap() + inc
			if chance(t, 40, "ipairs") {
				pr := pick(t, []string{"s t", "s t", "@ %20", "x %2e", `s ""`, ""}, "ipairv")
				if pr == "" {
					// the separator with nothing behind it is kept as it is
					c += " --"
					nn += gap() + "--"
				} else {
					c += " -- " + pr
					nn += gap() + "--" + gap() + pr
				}
			}
			emit(ind()+c, nn+trail())
			feat["include"] = true
		case 6:
			c := "##!> include-except inc1 exc1"
			nn := lead() + "##!>" + gap() + "include-except" + gap() + "inc1" + gap() + "exc1"
			if chance(t, 40, "twoexc") {
				// the spacing inside the list of exclude files is the writer's, format keeps it
				g := gap()
				c += g + "exc2"
				nn += g + "exc2"
			}
			if chance(t, 40, "iepairs") {
				c += " -- es y"
				nn += gap() + "--" + gap() + "es y"
			}
			emit(ind()+c, nn+trail())
			feat["include-except"] = true
		case 7, 8:
			if depth < 7 {
				if chance(t, 70, "asm") {
					emit(ind()+"##!> assemble", lead()+"##!>"+gap()+"assemble"+trail())
				} else {
					ct := pick(t, []string{"unix", "windows"}, "ct")
					emit(ind()+"##!> cmdline "+ct, lead()+"##!>"+gap()+"cmdline"+gap()+ct+trail())
				}
				depth++
				feat["block"] = true
				continue
			}
			fallthrough
		case 9:
			if depth > 0 {
				depth--
				// text right after the end marker does not stop it from closing the block
				tail := ""
				if chance(t, 20, "endtail") {
					tail = pick(t, []string{"-- end of block", "<", " end", "--"}, "endtailv")
					feat["end-marker-with-text"] = true
				}
				emit(ind()+"##!<"+tail, lead()+"##!<"+tail)
				continue
			}
			fallthrough
		case 10:
			if depth > 0 {
				c := pick(t, []string{"##!=>", "##!=< st1", "##!=> st1"}, "io")
				// white space after a marker's name belongs to the line (the compiler reads it as part of the name); format keeps it
				tr := ""
				if c != "##!=>" {
					tr = trail()
				}
				emit(ind()+c+tr, lead()+c+tr)
				feat["io-marker"] = true
				continue
			}
			fallthrough
		default:
			e := drawEntry(t, false, "e")
			emit(ind()+e, lead()+e)
		}
	}
	for depth > 0 {
		depth--
		emit(ind()+"##!<", lead()+"##!<")
	}
	return
}

var soupTokens = []string{"##!", "##!>", "##!<", "##!+", "##!^", "##!$", "##!=>", "##!=<", "assemble", "cmdline", "unix", "windows",
	"include", "include-except", "define", "--", "inc1", "exc1", "i", "s", "foo", "b[a-c]r", "x", "name", `""`, "{{name}}", "#", "##", "[A-Z]", "\\"}

func drawSoupLine(t *rapid.T) string {
	n := drawInt(t, 0, 5, "soupn")
	var sb strings.Builder
	sb.WriteString(ws(t, "souplead", false))
	if chance(t, 8, "soupexotic") {
		// white space other than blank and tab is not indentation for the compiler
		sb.WriteString(pick(t, []string{"\f", "\v", "\u00a0", "\u0085", "\r"}, "exotic"))
	}
	for i := 0; i < n; i++ {
		sb.WriteString(pick(t, soupTokens, "souptok"))
		if chance(t, 70, "soupsp") {
			sb.WriteString(ws(t, "soupws", true))
		}
	}
	return sb.String()
}

// drawFmtFile draws one assembly file (and the tree around it) for the format checks.
func drawFmtFile(t *rapid.T, w *World, maxLines int) FmtFile {
	f := FmtFile{}
	feat := map[string]bool{}
	w.Put("crs/regex-assembly/include/inc1.ra", "abs\nbes\ncx\n")
	w.Put("crs/regex-assembly/include/inc2.ra", "##!^ p\nqq\nrr\n")
	w.Put("crs/regex-assembly/exclude/exc1.ra", "bes\n")
	w.Put("crs/regex-assembly/exclude/exc2.ra", "cx\n")
	w.Put("crs/regex-assembly/include/sql--kw.ra", "select\nunion\n")
	w.Put("crs/regex-assembly/include/a-b.ra", "dash\n")
	if chance(t, 25, "asinclude") {
		f.IsInc = true
		f.Path = "crs/regex-assembly/include/subject.ra"
		f.Arg = "subject"
	} else {
		f.Path = "crs/regex-assembly/942100.ra"
		f.Arg = pick(t, []string{"942100", "942100.ra"}, "arg")
	}
	var content string
	switch m := drawInt(t, 0, 9, "mode"); {
	case m <= 5:
		f.Mode = "structured"
		noisy := chance(t, 75, "noisy")
		// third flavour: every line already canonical, only the line terminators / the end of the file are off
		termOnly := !noisy && chance(t, 60, "termonly")
		canon, noise, hasFlags := drawFmtBody(t, noisy, feat, maxLines)
		if f.IsInc && hasFlags {
			// flags are not allowed in include files; keep the file format-only relevant
		}
		f.HasFlags = hasFlags
		hasHeader := chance(t, 35, "hasheader") || termOnly
		nl := "\n"
		if (noisy && chance(t, 15, "crlf")) || (termOnly && chance(t, 40, "crlf2")) {
			nl = "\r\n"
			feat["crlf"] = true
		}
		var sb strings.Builder
		if hasHeader {
			sb.WriteString(strings.ReplaceAll(raHeader, "\n", nl) + nl)
			feat["header"] = true
		}
		for _, l := range noise {
			sb.WriteString(l + nl)
		}
		content = sb.String()
		if termOnly {
			feat["terminators-only"] = true
			hasHeader = true
		}
		if noisy || termOnly {
			switch drawInt(t, 0, 4, "eof") {
			case 0:
				content = strings.TrimRight(content, "\r\n")
				feat["no-final-newline"] = true
			case 1:
				content += strings.Repeat(nl, drawInt(t, 1, 3, "extra-nl"))
				feat["trailing-blank"] = true
			}
		}
		// reference rendering
		if termOnly && chance(t, 25, "size-boundary") {
			// the canonical text ends exactly on a typical buffer size; only the end of the file is off
			for len(canon) > 0 && canon[len(canon)-1] == "" {
				canon = canon[:len(canon)-1]
				noise = noise[:len(noise)-1]
			}
			size := pick(t, []int{512, 1024, 4096, 8192, 32768, 65536}, "bsize")
			cur := len(raHeader) + 1
			for _, l := range canon {
				cur += len(l) + 1
			}
			if pad := size - cur - len("##! ") - 1; pad > 0 {
				line := "##! " + strings.Repeat("p", pad)
				canon = append([]string{line}, canon...)
				noise = append([]string{line}, noise...)
				var sbb strings.Builder
				sbb.WriteString(strings.ReplaceAll(raHeader, "\n", nl) + nl)
				for _, l := range noise {
					sbb.WriteString(l + nl)
				}
				content = sbb.String() + strings.Repeat(nl, drawInt(t, 1, 3, "b-extra"))
				feat["size-boundary"] = true
			}
		}
		if hasHeader && strings.Contains(content, nl+nl) && chance(t, 4, "manylines") {
			// more than 64 KiB of short lines at nesting level 0 in front of the body
			var fill []string
			want := pick(t, []int{70000, 140000, 200000}, "manylines-size")
			for k, total := 0, 0; total < want; k++ {
				l := fmt.Sprintf("##! filler line %05d x%s", k, strings.Repeat("f", k%23))
				fill = append(fill, l)
				total += len(l) + 1
			}
			canon = append(fill, canon...)
			content = strings.Replace(content, nl+nl, nl+nl+strings.Join(fill, nl)+nl, 1)
			feat["more-than-64k-of-lines"] = true
		}
		for len(canon) > 0 && canon[len(canon)-1] == "" {
			canon = canon[:len(canon)-1]
		}
		if len(canon) == 0 {
			f.Canon = raHeader + "\n"
		} else {
			f.Canon = raHeader + "\n" + strings.Join(canon, "\n") + "\n"
		}
		if noisy {
			feat["noisy"] = true
		}
	case m <= 8:
		f.Mode = "soup"
		n := drawInt(t, 0, maxLines, "soup-lines")
		nl := "\n"
		if chance(t, 15, "soup-crlf") {
			nl = "\r\n"
		} else if chance(t, 6, "soup-crcrlf") {
			nl = "\r\r\n" // what some editors and transfers leave behind
		}
		var sb strings.Builder
		if chance(t, 20, "soup-header") {
			if chance(t, 35, "soup-leadblank") {
				// the header is there, but not at the very top
				sb.WriteString(pick(t, []string{"\n", " \n", "\n\n", "\t\n\n"}, "soup-leadblank-v"))
			}
			sb.WriteString(raHeader)
			if chance(t, 60, "soup-header-blank") {
				sb.WriteString("\n")
			}
		}
		for i := 0; i < n; i++ {
			sb.WriteString(drawSoupLine(t) + nl)
		}
		content = sb.String()
		if chance(t, 25, "soup-nofinal") {
			content = strings.TrimRight(content, "\r\n")
		}
		f.HasFlags = strings.Contains(content, "##!+")
	default:
		f.Mode = "boundary"
		content = pick(t, []string{"", "\n", "\n\n\n", " ", " \t \n", "\r\n", raHeader, raHeader + "\n", raHeader + "\n\n", strings.TrimRight(raHeader, "\n"),
			raHeader + "foo\n", raHeader + "\nfoo", "foo", "##!", "\t##!<\n", raHeader + "\n" + raHeader, raHeader + raHeader + "foo\n", raHeader + "\n" + raHeader + "\nbar\n",
			"\n" + raHeader + "\nfoo\n", "\n" + raHeader + "\n##! note\nfoo\nbar\n", " \n" + raHeader + "foo\n", "\n\n" + raHeader + "\nfoo\n", "\n" + raHeader,
			// the first line of the header followed by a comment that merely starts like its second line
			strings.SplitAfter(raHeader, "\n")[0] + "##! https://coreruleset.org/docs/development/regex_assembly/#include see the section on includes\n\nfoo\n",
			strings.SplitAfter(raHeader, "\n")[0] + "##! https://coreruleset.org/docs/development/regex_assembly/ (moved)\nbar\n"}, "boundary")
		switch content {
		case "", "\n", "\n\n\n", " ", " \t \n", "\r\n", raHeader + "\n", raHeader + "\n\n", raHeader, strings.TrimRight(raHeader, "\n"):
			f.Canon = raHeader + "\n"
		case raHeader + "\nfoo", raHeader + "foo\n":
			f.Canon = raHeader + "\nfoo\n"
		case "foo":
			f.Canon = raHeader + "\nfoo\n"
		case "##!":
			f.Canon = raHeader + "\n##!\n"
		}
	}
	if chance(t, 4, "bom") {
		// a byte order mark is a character of the first line for the compiler; the formatter has to leave it where it is
		content = "\ufeff" + content
		f.Canon = ""
		feat["byte-order-mark"] = true
	}
	w.Put(f.Path, content)
	f.Features = sortedKeys(feat)
	return f
}

func genFmt(t *rapid.T, tier string) (*World, any) {
	w := NewWorld()
	p := &FmtParams{}
	maxLines := 10
	if tier == "thorough" {
		maxLines = 40
	}
	p.File = drawFmtFile(t, w, maxLines)
	if p.File.IsInc {
		p.Includer = "crs/regex-assembly/942100.ra"
		w.Put(p.Includer, "##!> include subject\nzz\n")
	}
	w.Put("crs/rules/REQUEST-942-X.conf", "# nothing\n")
	for i := 0; i < 4; i++ {
		p.Plans = append(p.Plans, drawPlan(t, fmt.Sprintf("plan%d", i), false))
	}
	p.CheckFlag = pick(t, []string{"--check", "--check", "-c", "--check=true", "-c=true"}, "checkflag")
	if chance(t, 15, "formatflag") {
		p.FormatFlag = pick(t, []string{"--check=false", "-c=false"}, "formatflag-v")
	}
	return w, p
}

func evalC09(sc *Scenario, sim *Sim) ([]Violation, bool, string) {
	var p FmtParams
	if err := json.Unmarshal(sc.Params, &p); err != nil {
		machinery("params: %v", err)
	}
	sb := sim.NewSandbox(sc.World)
	defer sb.Close()
	f := p.File
	stepNo := 0
	plan := func() simrt.Plan {
		pl := p.Plans[stepNo%len(p.Plans)]
		stepNo++
		return pl
	}
	sigTail := f.Mode
	var viol []Violation
	add := func(oracle, what, msg, detail string) {
		viol = append(viol, Violation{Prop: "C09", Oracle: oracle, Sig: "C09/" + oracle + "/" + what + "/" + sigTail, Msg: msg,
			Detail: detail + fmt.Sprintf("\noriginal file (%q):\n%q", f.Path, clip(sc.World.Files[f.Path].Bytes()))})
	}
	check := func(tag string) Result {
		before := sb.Snap()
		cf := p.CheckFlag
		if cf == "" {
			cf = "--check"
		}
		r := sb.Run(Step{Argv: []string{"regex", "format", cf, f.Arg}, Cwd: "crs", Plan: plan()})
		after := sb.Snap()
		if d := before.Diff(after, true); len(d) > 0 {
			add("check-never-writes", "disk", "`format --check` ("+tag+") changed the tree: "+strings.Join(d, " "), "")
		}
		if wc := r.WriteCalls(); len(wc) > 0 {
			add("check-never-writes", "call", "`format --check` ("+tag+") issued write calls: "+strings.Join(wc, "; "), "")
		}
		return r
	}
	format := func() Result {
		if p.FormatFlag != "" {
			return sb.Run(Step{Argv: []string{"regex", "format", p.FormatFlag, f.Arg}, Cwd: "crs", Plan: plan()})
		}
		return sb.Run(Step{Argv: []string{"regex", "format", f.Arg}, Cwd: "crs", Plan: plan()})
	}
	b0 := sb.MustRead(f.Path)
	c0 := check("before")
	f1 := format()
	b1 := sb.MustRead(f.Path)
	if f1.Exit != 0 {
		if p.FormatFlag != "" {
			// the switch spelled with an explicit false value is the switch left out: the plain spelling must refuse the file as well
			if pf := sb.Run(Step{Argv: []string{"regex", "format", f.Arg}, Cwd: "crs", Plan: plan()}); pf.Exit == 0 {
				add("check-agrees", "explicit-false-is-not-absent", fmt.Sprintf("`format %s` failed (exit %d, file unchanged=%v) where `format` without the switch succeeds", p.FormatFlag, f1.Exit, bytes.Equal(b0, b1)), string(f1.Stdout)+string(f1.Stderr))
				return viol, true, ""
			}
		}
		// format refused the file (e.g. unsupported flag): loudness is C16's business; nothing to compare
		return viol, false, ""
	}
	c1 := check("after first format")
	f2 := format()
	b2 := sb.MustRead(f.Path)
	c2 := check("after second format")
	f3 := format()
	b3 := sb.MustRead(f.Path)
	_ = c2
	// a name that resolves to no file: --check has nothing to check, fails, and leaves the tree alone
	{
		before := sb.Snap()
		r := sb.Run(Step{Argv: []string{"regex", "format", "--check", pick2(stepNo, "942199", "nosuchinclude")}, Cwd: "crs", Plan: plan()})
		if d := before.Diff(sb.Snap(), true); len(d) > 0 {
			add("check-never-writes", "missing-target", fmt.Sprintf("`format --check` of a name without a file (exit %d) changed the tree: %s", r.Exit, strings.Join(d, " ")), "")
		}
	}
	if f2.Exit != 0 || f3.Exit != 0 {
		add("idempotent", "exit", fmt.Sprintf("format succeeded once and then failed (exit %d, %d) on its own output", f2.Exit, f3.Exit), string(f2.Stderr))
	}
	if !bytes.Equal(b1, b2) {
		add("idempotent", "second", "formatting an already formatted file changed it", fmt.Sprintf("after 1st format: %q\nafter 2nd format: %q", clip(b1), clip(b2)))
	} else if !bytes.Equal(b1, b3) {
		add("idempotent", "third", "the third format changed the file again", fmt.Sprintf("after 1st format: %q\nafter 3rd format: %q", clip(b1), clip(b3)))
	}
	// --check agrees with format
	if c0.Exit == 0 && !bytes.Equal(b0, b1) {
		add("check-agrees", "check-ok-but-format-changes", "`format --check` succeeded but format then changed the file", fmt.Sprintf("before: %q\nafter: %q", clip(b0), clip(b1)))
	}
	if c0.Exit != 0 && bytes.Equal(b0, b1) && !f.HasFlags {
		add("check-agrees", "check-fails-but-format-noop", fmt.Sprintf("`format --check` failed (exit %d) on a file format leaves byte-identical (no flags line, so the lint cannot fire)", c0.Exit), string(c0.Stdout)+string(c0.Stderr))
	}
	if !f.HasFlags {
		if (c1.Exit == 0) != bytes.Equal(b1, b2) {
			add("check-agrees", "after-format", fmt.Sprintf("`format --check` after format exited %d but a further format changes=%v", c1.Exit, !bytes.Equal(b1, b2)), string(c1.Stdout)+string(c1.Stderr))
		}
	}
	if f.Canon != "" && !canonEqual(string(b1), f.Canon) {
		add("canonical-layout", "layout", "formatted file differs from the reference rendering of the canonical layout", fmt.Sprintf("got:      %q\nexpected: %q", clip(b1), clip([]byte(f.Canon))))
	}
	return viol, true, fmt.Sprintf("%x", sc.World.Hash())
}

// canonEqual compares a formatted file with the reference rendering. The statement fixes indentation, the spacing after
// markers and keywords, the header and the end of the file; it does not say whether runs of blanks INSIDE a directive's
// argument list or after a marker's name are kept or collapsed, so both are accepted there (idempotence is judged separately).
func canonEqual(got, want string) bool {
	if got == want {
		return true
	}
	gl, wl := strings.Split(got, "\n"), strings.Split(want, "\n")
	if len(gl) != len(wl) {
		return false
	}
	norm := func(l string) string {
		t := strings.TrimLeft(l, " ")
		ind := l[:len(l)-len(t)]
		switch {
		case strings.HasPrefix(t, "##!> "):
			return ind + strings.Join(strings.Fields(t), " ")
		case strings.HasPrefix(t, "##!="):
			return ind + strings.TrimRight(t, " \t")
		}
		return l
	}
	for i := range gl {
		if norm(gl[i]) != norm(wl[i]) {
			return false
		}
	}
	return true
}

// stripLines returns the sequence of lines with all white space removed and trailing blank lines dropped.
func stripLines(b []byte) []string {
	var out []string
	for _, l := range strings.Split(string(b), "\n") {
		l = strings.Map(func(r rune) rune {
			// white space in the sense of the tool: blanks, tabs and line terminators (a form feed or a no-break space is content to the compiler)
			if r == ' ' || r == '\t' || r == '\r' || r == '\n' {
				return -1
			}
			return r
		}, l)
		out = append(out, l)
	}
	for len(out) > 0 && out[len(out)-1] == "" {
		out = out[:len(out)-1]
	}
	return out
}

func evalC10(sc *Scenario, sim *Sim) ([]Violation, bool, string) {
	var p FmtParams
	if err := json.Unmarshal(sc.Params, &p); err != nil {
		machinery("params: %v", err)
	}
	sb := sim.NewSandbox(sc.World)
	defer sb.Close()
	f := p.File
	genArg := f.Arg
	if f.IsInc {
		genArg = "942100"
	}
	var viol []Violation
	add := func(oracle, what, msg, detail string) {
		viol = append(viol, Violation{Prop: "C10", Oracle: oracle, Sig: "C10/" + oracle + "/" + what, Msg: msg,
			Detail: detail + fmt.Sprintf("\noriginal file (%q):\n%q", f.Path, clip(sc.World.Files[f.Path].Bytes()))})
	}
	b0 := sb.MustRead(f.Path)
	g1 := sb.Run(Step{Argv: []string{"regex", "generate", genArg}, Cwd: "crs", Plan: p.Plans[0]})
	fm := sb.Run(Step{Argv: []string{"regex", "format", f.Arg}, Cwd: "crs", Plan: p.Plans[1]})
	b1 := sb.MustRead(f.Path)
	g2 := sb.Run(Step{Argv: []string{"regex", "generate", genArg}, Cwd: "crs", Plan: p.Plans[2]})
	if fm.Exit != 0 {
		if !bytes.Equal(b0, b1) {
			add("failed-format-keeps-file", "changed", fmt.Sprintf("format failed (exit %d) but changed the file", fm.Exit), fmt.Sprintf("after: %q", clip(b1)))
		}
		return viol, false, ""
	}
	if g1.Exit == 0 {
		if g2.Exit != 0 {
			add("same-regex", "compiles-before-not-after", fmt.Sprintf("generate succeeded before format and fails after it (exit %d)", g2.Exit),
				fmt.Sprintf("formatted file: %q\nstderr: %s", clip(b1), clip(g2.Stderr)))
		} else if !bytes.Equal(g1.Stdout, g2.Stdout) {
			add("same-regex", "regex-differs", "generate prints a different regex after format",
				fmt.Sprintf("before: %q\nafter:  %q\nformatted file: %q", clip(g1.Stdout), clip(g2.Stdout), clip(b1)))
		}
	} else if g2.Exit == 0 {
		add("same-regex", "fails-before-compiles-after", fmt.Sprintf("generate failed before format (exit %d) and succeeds after it", g1.Exit),
			fmt.Sprintf("regex after: %q\nformatted file: %q\nstderr before: %s", clip(g2.Stdout), clip(b1), clip(g1.Stderr)))
	}
	// the sequence of lines, white space disregarded, minus the added header and trailing blank lines
	before := stripLines(b0)
	after := stripLines(b1)
	hdr := stripLines([]byte(raHeader + "\n"))
	hdr = append(hdr, "") // the blank line after the header
	hadHeader := len(before) >= 2 && before[0] == hdr[0] && before[1] == hdr[1]
	if !hadHeader {
		// format must have added exactly the header (two lines and a blank one)
		if len(after) >= 2 && after[0] == hdr[0] && after[1] == hdr[1] {
			after = after[2:]
			if len(after) > 0 && after[0] == "" {
				after = after[1:]
			}
		}
	} else {
		// both carry it; compare from the first line after the header block
		trim := func(x []string) []string {
			x = x[2:]
			if len(x) > 0 && x[0] == "" {
				x = x[1:]
			}
			return x
		}
		before, after = trim(before), trim(after)
	}
	// leading blank lines of a header-less file stay where they are (after the header)
	if strings.Join(before, "\n") != strings.Join(after, "\n") {
		what := "lines-changed"
		if len(after) < len(before) {
			what = "line-lost"
		} else if len(after) > len(before) {
			what = "line-added"
		} else {
			for i := range before {
				if before[i] != after[i] {
					if after[i] == "" {
						what = "line-lost"
					} else {
						what = "line-retyped"
					}
					break
				}
			}
		}
		add("same-lines", what, "the white-space-stripped line sequence changed across format",
			fmt.Sprintf("before: %q\nafter:  %q", before, after))
	}
	return viol, true, fmt.Sprintf("%x", sc.World.Hash())
}

func init() {
	rule := "scenario = one assembly file (rule file or include file) in one of three modes: structured program (flags, prefix, suffix, comments, blanks, definitions, include / include-except with pairs, assemble / cmdline blocks to depth 3, ##!=> / ##!=< markers) rendered with surface noise (random leading blanks / tabs, extra blanks after markers and keywords, trailing blanks, CRLF, missing final newline, extra trailing blank lines, header present or not); token soup (lines of directive fragments, tabs, CRLF); boundary files (empty, white-space-only, header-only, header without blank line). "
	register(&Property{
		ID: "C09", Level: "exploration",
		Rule: rule + "History: check, format, check, format, check, format over one disk (the check switch spelled --check, -c, --check=true or -c=true; format sometimes spelled `format --check=false`, which must do what `format` does), every step under its own seeded map-iteration schedule. Oracles: bytes after the 2nd and 3rd format equal those after the 1st; --check exit 0 implies format is a byte no-op, and (no flags line) format no-op implies --check exit 0; --check leaves the whole tree (content, mode, mtime) untouched and issues no write call; for structured and boundary inputs the result equals a reference rendering of the canonical layout. Non-trivial = format accepted the file; distinct = distinct file contents.",
		Gen:  genFmt, Eval: evalC09,
		QuickChecks: 800, ThoroughChecks: 12000, Timeout: 20 * time.Second,
		Assumptions: []string{
			"the canonical-layout oracle is applied only to shapes whose canonical form the statement pins down (structured and boundary inputs); token soup gets idempotence, check agreement and the write monitor only",
			"a file that starts with the two header lines carries the header; format adds the blank line after it when it is missing",
			"when format itself refuses the file (exit != 0) the scenario is not judged here (loudness is C16)",
		},
		RealStub: realStubDefault,
	})
	register(&Property{
		ID: "C10", Level: "exploration",
		Rule: rule + "History: generate, format, generate on one tree (for an include file, generate runs on a rule file that includes it). Oracles: generate succeeds before iff after and prints the identical regex; the sequence of lines with all white space removed, minus the added header and trailing blank lines, is identical before and after. Non-trivial = format accepted the file; distinct = distinct file contents.",
		Gen:  genFmt, Eval: evalC10,
		QuickChecks: 1500, ThoroughChecks: 20000, Timeout: 20 * time.Second,
		Assumptions: []string{
			"'the same failure' is compared as success / failure of generate, not by message",
			"leading blank lines of a header-less file are expected to stay (after the inserted header)",
		},
		RealStub: realStubDefault,
	})
}

func pick2(n int, a, b string) string {
	if n%2 == 0 {
		return a
	}
	return b
}
