package main

import (
	"bytes"
	"encoding/json"
	"fmt"
	"regexp"
	"strings"
	"time"

	"pgregory.net/rapid"

	"crssim/simrt"
)

// C04 - cmdline blocks match every listed command with anti-evasion tokens interleaved,
// for whatever toolchain.yaml defines - including a missing, unreadable or torn file.
// Simulation part: the configuration / fault space (file states, open / read faults through
// the I/O seam). The word x variant part is generated-input checking against two reference
// languages built from the statement (said plainly in DESIGN.md).

type cfgPattern struct {
	Text    string   `json:"text"`
	Samples []string `json:"samples"` // strings the pattern matches completely
}

type C04Word struct {
	Line string `json:"line"` // as written in the block
}

type C04Params struct {
	Shell  string    `json:"shell"` // unix | windows
	Words  []C04Word `json:"words"`
	Others []string  `json:"others"` // plain entries next to the block
	Nested bool      `json:"nested"`
	// Concat: the block sits between `##!=>` markers inside an assemble block: pre, block, post are concatenated
	Concat bool   `json:"concat"`
	Pre    string `json:"pre,omitempty"`
	Post   string `json:"post,omitempty"`
	// configuration as written (key -> value; missing key = not written)
	Config     map[string]string `json:"config"`
	ConfigMode string            `json:"config_mode"` // complete | partial | padded | extra-keys | empty | torn | type-error | other-name | absent | open-eacces | open-eloop | is-directory
	// effective patterns according to the statement (what must be inserted)
	E      cfgPattern `json:"effective_evasion"`
	SAt    cfgPattern `json:"effective_suffix"`
	STilde cfgPattern `json:"effective_no_space_suffix"`
	Plan   simrt.Plan `json:"plan"`
	Seeds  []int      `json:"seeds"` // choices for the sample strings
	// Via: how the regex reaches the user: printed by generate, or written into the rules file by update
	Via string `json:"via,omitempty"`
}

var evasionPool = map[string][]cfgPattern{
	"unix": {
		{`[\x5c'\"\[]*(?:\$[a-z0-9_@?!#{*-]*)?(?:\x5c)?`, []string{"", `\`, `''`, `"`, `$a`, `$`, `'\`, `[$x9\`}},
		{`[\x5c'\"]*`, []string{"", `\`, `'"`, `\\`}},
		{`_?`, []string{"", "_"}},
		{`(?:\$\{\w*\})?`, []string{"", "${}", "${ab}"}},
		{``, []string{""}},
	},
	"windows": {
		{`[\"\^]*`, []string{"", "^", `"^`, `^^`}},
		{`\^?`, []string{"", "^"}},
		{``, []string{""}},
	},
}
var suffixPool = map[string][]cfgPattern{
	"unix":    {{`(?:\s|<|>).*`, []string{" ", "<", "> foo", " a b", "\t"}}, {`[\s<>].*`, []string{" x", "<"}}, {``, []string{""}}, {`(?:\$IFS|\s).*`, []string{"$IFS", "$IFSx", " y"}}},
	"windows": {{`(?:[\s,;]|\.|/|<|>).*`, []string{",", ";x", " y", "./z", "<"}}, {`[\s,;].*`, []string{", a"}}, {``, []string{""}}},
}
var noSpacePool = map[string][]cfgPattern{
	"unix":    {{`(?:<|>).*`, []string{"<", ">x", "<<<y"}}, {`[<>].*`, []string{">"}}, {``, []string{""}}},
	"windows": {{`(?:[,;]|\.|/|<|>).*`, []string{",", ";x", ".exe", "/c"}}, {`[,;].*`, []string{";"}}, {``, []string{""}}},
}

func genC04(t *rapid.T, tier string) (*World, any) {
	w := NewWorld()
	p := &C04Params{Config: map[string]string{}}
	p.Shell = pick(t, []string{"unix", "windows"}, "shell")
	// words
	alphabet := []string{"a", "b", "c", "e", "g", "n", "p", "s", "t", "3", "7", ".", "-", "_", " "}
	nw := drawInt(t, 1, 6, "nwords")
	seen := map[string]bool{}
	for i := 0; i < nw; i++ {
		n := drawInt(t, 1, 9, "wlen")
		var sb strings.Builder
		for j := 0; j < n; j++ {
			c := pick(t, alphabet, "wchar")
			if c == " " && (j == 0 || j == n-1) {
				c = "x" // the parser trims leading blanks, and a trailing blank is not a word character
			}
			sb.WriteString(c)
		}
		word := sb.String()
		if !chance(t, 30, "double-blank") {
			word = strings.ReplaceAll(word, "  ", " x")
		}
		if strings.HasPrefix(word, "##!") || strings.HasPrefix(word, "'") {
			word = "x" + word
		}
		switch drawInt(t, 0, 9, "marker") {
		case 0, 1:
			word += "@"
		case 2, 3:
			word += "~"
		case 4:
			word += `\@`
		case 5:
			word += `\~`
		}
		if chance(t, 5, "lone-escaped-marker") {
			word = pick(t, []string{`\@`, `\~`}, "lonem") // the character itself, nothing else
		}
		if chance(t, 8, "verbatim") {
			word = "'" + pick(t, []string{"ab+c", "x[0-9]y", "p(?:q|r)s", "kk|mm", "ap(?:t)?|yu", "'q[a-c]+'", "us+er@", "ro+t~", `ma+il\\@`, `ti+l\\~`, "a@|b~"}, "verb")
		}
		if seen[word] {
			continue
		}
		seen[word] = true
		p.Words = append(p.Words, C04Word{Line: word})
	}
	if chance(t, 4, "bigblock") {
		// a long command list (CRS has blocks of several hundred commands)
		for i := 0; len(p.Words) < 300; i++ {
			word := fmt.Sprintf("%s%d%s", pick(t, []string{"cmd", "x-y", "a.b", "run"}, "bigw"), i, pick(t, []string{"", "", "@", "~"}, "bigm"))
			if !seen[word] {
				seen[word] = true
				p.Words = append(p.Words, C04Word{Line: word})
			}
		}
	}
	if chance(t, 30, "others") {
		p.Others = append(p.Others, "zz"+drawWord(t, 1, 3, "other"))
	}
	p.Nested = chance(t, 25, "nested")
	if !p.Nested && chance(t, 20, "concat") {
		p.Concat = true
		p.Pre = "qq" + drawWord(t, 1, 2, "pre")
		p.Post = drawWord(t, 1, 2, "post") + "kk"
	}
	if p.Concat && chance(t, 25, "lone-verbatim") {
		// a block that consists of one verbatim line with a top-level alternation is still one unit
		p.Words = []C04Word{{Line: "'" + pick(t, []string{"kk|mm", "ap(?:t)?|yu", "a|b|c"}, "lonev")}}
	}
	// the intended complete configuration
	full := map[string]cfgPattern{}
	for _, sh := range []string{"unix", "windows"} {
		full["anti_evasion."+sh] = pick(t, evasionPool[sh], "E-"+sh)
		full["anti_evasion_suffix."+sh] = pick(t, suffixPool[sh], "S-"+sh)
		full["anti_evasion_no_space_suffix."+sh] = pick(t, noSpacePool[sh], "N-"+sh)
	}
	p.ConfigMode = pick(t, []string{"complete", "complete", "complete", "partial", "padded", "extra-keys", "empty", "torn", "type-error", "other-name", "other-name-missing", "absent", "open-eacces", "open-eloop", "is-directory"}, "cfgmode")
	written := map[string]cfgPattern{}
	for k, v := range full {
		written[k] = v
	}
	if p.ConfigMode == "partial" {
		for _, k := range sortedKeys(full) {
			if chance(t, 50, "drop") {
				delete(written, k)
			}
		}
	}
	badKey := ""
	render := func(padded bool) string {
		var sb strings.Builder
		sb.WriteString("patterns:\n")
		for _, grp := range []string{"anti_evasion", "anti_evasion_suffix", "anti_evasion_no_space_suffix"} {
			wrote := false
			for _, sh := range []string{"unix", "windows"} {
				v, ok := written[grp+"."+sh]
				if !ok {
					continue
				}
				if !wrote {
					sb.WriteString("  " + grp + ":\n")
					wrote = true
				}
				p.Config[grp+"."+sh] = v.Text
				if grp+"."+sh == badKey {
					sb.WriteString("    " + sh + ": [not, a, string]\n")
				} else if v.Text == "" {
					sb.WriteString("    " + sh + ": \"\"\n")
				} else if padded {
					sb.WriteString("    " + sh + ": |\n      " + v.Text + "   \n\n")
				} else {
					sb.WriteString("    " + sh + ": |\n      " + v.Text + "\n")
				}
			}
		}
		return sb.String()
	}
	cfgPath := "crs/regex-assembly/toolchain.yaml"
	effective := true
	switch p.ConfigMode {
	case "complete", "partial":
		w.Put(cfgPath, render(false))
	case "padded":
		w.Put(cfgPath, render(true))
	case "extra-keys":
		// unknown keys next to the known ones do not make the file unreadable
		w.Put(cfgPath, "schema_version: 2\n"+render(false)+"  future_pattern:\n    unix: zzz\nmaintainer: someone\n")
	case "empty":
		w.Put(cfgPath, pick(t, []string{"", "\n", "# nothing\n", "patterns:\n"}, "emptycfg"))
		effective = false
	case "torn":
		// a syntactically broken document after some keys were already readable
		full := render(false)
		w.Put(cfgPath, full[:len(full)*2/3]+"\n  anti_evasion_suffix: [unclosed\n    unix: \"never closed\n")
		effective = false
	case "type-error":
		// well-formed YAML in which one value has the wrong type: the decoder reports an error after it has filled in the other fields
		badKey = pick(t, sortedKeys(written), "badkey")
		w.Put(cfgPath, render(false))
		effective = false
	case "other-name":
		w.Put("crs/regex-assembly/alternative.yml", render(false))
		w.Put(cfgPath, "patterns:\n  anti_evasion:\n    unix: WRONGFILE\n    windows: WRONGFILE\n")
	case "other-name-missing":
		// -f selects a file that does not exist; the populated default file next to it is not what was asked for
		w.Put(cfgPath, render(false))
		effective = false
	case "absent":
		effective = false
	case "open-eacces", "open-eloop":
		w.Put(cfgPath, render(false))
		p.Plan.IOFaults = []simrt.IOFault{{Op: "open", PathSuffix: "toolchain.yaml", Kind: strings.TrimPrefix(p.ConfigMode, "open-")}}
		effective = false
	case "is-directory":
		w.Dirs = append(w.Dirs, cfgPath)
		effective = false
	}
	if effective {
		p.E = written["anti_evasion."+p.Shell]
		p.SAt = written["anti_evasion_suffix."+p.Shell]
		p.STilde = written["anti_evasion_no_space_suffix."+p.Shell]
	}
	if p.E.Samples == nil {
		p.E.Samples = []string{""}
	}
	if p.SAt.Samples == nil {
		p.SAt.Samples = []string{""}
	}
	if p.STilde.Samples == nil {
		p.STilde.Samples = []string{""}
	}
	sched := drawPlan(t, "plan", false)
	p.Plan.MapAll, p.Plan.MapDefault, p.Plan.MapOverrides = sched.MapAll, sched.MapDefault, sched.MapOverrides
	for i := 0; i < 64; i++ {
		p.Seeds = append(p.Seeds, drawInt(t, 0, 9999, "seed"))
	}
	// the program
	var lines []string
	lines = append(lines, p.Others...)
	blk := []string{"##!> cmdline " + p.Shell}
	for _, wd := range p.Words {
		blk = append(blk, "  "+wd.Line)
	}
	blk = append(blk, "##!<")
	if p.Concat {
		lines = append(lines, "##!> assemble", "  "+p.Pre, "  ##!=>")
		for _, b := range blk {
			lines = append(lines, "  "+b)
		}
		lines = append(lines, "  ##!=>", "  "+p.Post, "##!<")
	} else if p.Nested {
		lines = append(lines, "##!> assemble")
		for _, b := range blk {
			lines = append(lines, "  "+b)
		}
		lines = append(lines, "##!<")
	} else {
		lines = append(lines, blk...)
	}
	w.Put("crs/regex-assembly/932100.ra", joinLines(lines))
	// the same expression is what update writes and compare expects, with the same configuration
	if chance(t, 25, "via-update") {
		p.Via = "update"
		w.Put("crs/rules/REQUEST-932-APPLICATION-ATTACK-RCE.conf", "# rules\n\nSecRule ARGS \"@rx stored\" \\\n    \"id:932100,\\\n    phase:2,\\\n    deny\"\n")
	}
	return w, p
}

var verbatimSamples = map[string][]string{
	"ab+c": {"abc", "abbc"}, "x[0-9]y": {"x5y"}, "p(?:q|r)s": {"pqs", "prs"},
	"kk|mm": {"kk", "mm"}, "ap(?:t)?|yu": {"ap", "apt", "yu"}, "a|b|c": {"a", "b", "c"}, "'q[a-c]+'": {"'qa'", "'qabc'"},
	// a verbatim line is passed through untouched, also when it ends in what would be a marker on a command word
	"us+er@": {"user@", "usser@"}, "ro+t~": {"rot~", "root~"}, `ma+il\\@`: {`mail\@`, `maail\@`}, `ti+l\\~`: {`til\~`}, "a@|b~": {"a@", "b~"},
}

// word model from the statement
type wordModel struct {
	Verbatim string // leading ' : the rest of the line, untouched
	Chars    []byte
	Suffix   *cfgPattern // demanded suffix pattern (nil = none)
}

func (p *C04Params) model(line string) wordModel {
	if strings.HasPrefix(line, "'") {
		return wordModel{Verbatim: line[1:]}
	}
	m := wordModel{}
	body := line
	switch {
	case strings.HasSuffix(line, `\@`) || strings.HasSuffix(line, `\~`):
		body = line[:len(line)-2] + line[len(line)-1:]
	case strings.HasSuffix(line, "@") && len(line) >= 2:
		body = line[:len(line)-1]
		m.Suffix = &p.SAt
	case strings.HasSuffix(line, "~") && len(line) >= 2:
		body = line[:len(line)-1]
		m.Suffix = &p.STilde
	}
	m.Chars = []byte(body)
	return m
}

// refRegex renders lower (strict) or upper (one evasion token tolerated before the suffix) for a word.
func (p *C04Params) refRegex(m wordModel, upper bool) string {
	if m.Verbatim != "" {
		return "(?:" + m.Verbatim + ")"
	}
	e := "(?:" + p.E.Text + ")"
	var sb strings.Builder
	for i, c := range m.Chars {
		if i > 0 {
			sb.WriteString(e)
		}
		if c == ' ' {
			sb.WriteString(`[\t\n\f\r \v]+`)
		} else {
			sb.WriteString(regexp.QuoteMeta(string(c)))
		}
	}
	if m.Suffix != nil && m.Suffix.Text != "" {
		if upper {
			sb.WriteString(e)
		}
		sb.WriteString("(?:" + m.Suffix.Text + ")")
	}
	return "(?:" + sb.String() + ")"
}

func evalC04(sc *Scenario, sim *Sim) ([]Violation, bool, string) {
	var p C04Params
	if err := json.Unmarshal(sc.Params, &p); err != nil {
		machinery("params: %v", err)
	}
	sb := sim.NewSandbox(sc.World)
	defer sb.Close()
	verb := "generate"
	if p.Via == "update" {
		verb = "update"
	}
	argv := []string{"regex", verb, "932100"}
	if p.ConfigMode == "other-name" {
		argv = []string{"-f", "alternative.yml", "regex", verb, "932100"}
	}
	if p.ConfigMode == "other-name-missing" {
		argv = []string{"-f", "nosuchfile.yaml", "regex", verb, "932100"}
	}
	const c04Rules = "crs/rules/REQUEST-932-APPLICATION-ATTACK-RCE.conf"
	// operand extracts what update stored: the text between `"@rx ` and the closing `" \` of the SecRule line
	operand := func(s *Sandbox, res *Result) {
		if p.Via != "update" || res.Exit != 0 {
			return
		}
		for _, ln := range strings.Split(string(s.MustRead(c04Rules)), "\n") {
			if strings.HasPrefix(ln, `SecRule ARGS "@rx `) && strings.HasSuffix(ln, `" \`) {
				res.Stdout = []byte(strings.TrimSuffix(strings.TrimPrefix(ln, `SecRule ARGS "@rx `), `" \`))
				return
			}
		}
		machinery("C04: SecRule line not found after update: %q", s.MustRead(c04Rules))
	}
	r := sb.Run(Step{Argv: argv, Cwd: "crs", Plan: p.Plan})
	operand(sb, &r)
	if p.Via == "update" && r.Exit == 0 {
		// what update stores is what generate prints under the same configuration, byte for byte
		gargv := append([]string{}, argv...)
		for i := range gargv {
			if gargv[i] == "update" {
				gargv[i] = "generate"
			}
		}
		pl := p.Plan
		if g := sb.Run(Step{Argv: gargv, Cwd: "crs", Plan: pl}); g.Exit == 0 && !bytes.Equal(g.Stdout, r.Stdout) {
			return []Violation{{Prop: "C04", Oracle: "stored-is-generated", Sig: "C04/stored-is-generated/differs/" + p.ConfigMode,
				Msg:    "the expression `update` stored in the rules file is not the one `generate` prints under the same configuration",
				Detail: fmt.Sprintf("generate: %q\nstored:   %q\nprogram:\n%s", clip(g.Stdout), clip(r.Stdout), sc.World.Files["crs/regex-assembly/932100.ra"].Text)}}, true, ""
		}
	}
	var viol []Violation
	add := func(oracle, what, msg, detail string) {
		viol = append(viol, Violation{Prop: "C04", Oracle: oracle, Sig: "C04/" + oracle + "/" + what + "/" + p.ConfigMode, Msg: msg,
			Detail: detail + fmt.Sprintf("\nshell=%s config mode=%s\neffective evasion=%q suffix=%q no-space suffix=%q\nprogram:\n%s\nconfiguration file:\n%s\ngenerated: %q\nstderr: %s",
				p.Shell, p.ConfigMode, p.E.Text, p.SAt.Text, p.STilde.Text, sc.World.Files["crs/regex-assembly/932100.ra"].Text, sc.World.Files["crs/regex-assembly/toolchain.yaml"].Text, clip(r.Stdout), clip(r.Stderr))})
	}
	if r.Exit != 0 {
		add("compiles", "fails", fmt.Sprintf("generate failed (exit %d) on a well-formed cmdline block", r.Exit), "")
		return viol, true, ""
	}
	gen, err := regexp.Compile(`^(?:` + string(r.Stdout) + `)$`)
	if err != nil {
		machinery("cannot compile generated regex %q: %v", r.Stdout, err)
	}
	// failed configurations must behave exactly like the explicit empty configuration
	switch p.ConfigMode {
	case "empty", "torn", "type-error", "absent", "other-name-missing", "open-eacces", "open-eloop", "is-directory":
		ew := sc.World.Clone()
		delete(ew.Files, "crs/regex-assembly/toolchain.yaml")
		ew.Dirs = nil
		ew.Put("crs/regex-assembly/toolchain.yaml", "patterns:\n  anti_evasion:\n    unix: \"\"\n    windows: \"\"\n  anti_evasion_suffix:\n    unix: \"\"\n    windows: \"\"\n  anti_evasion_no_space_suffix:\n    unix: \"\"\n    windows: \"\"\n")
		sb2 := sim.NewSandbox(ew)
		pl := p.Plan
		pl.IOFaults = nil
		r2 := sb2.Run(Step{Argv: []string{"regex", verb, "932100"}, Cwd: "crs", Plan: pl})
		operand(sb2, &r2)
		sb2.Close()
		if r2.Exit != r.Exit || !bytes.Equal(r2.Stdout, r.Stdout) {
			add("failed-config-is-empty-config", "differs", "with a missing / unreadable / torn configuration the output differs from that of the explicit empty configuration (a partial pattern set leaked)",
				fmt.Sprintf("empty configuration gives: %q", clip(r2.Stdout)))
			return viol, true, ""
		}
	}
	// reference languages of the whole block
	var lowers, uppers []string
	var models []wordModel
	for _, wd := range p.Words {
		m := p.model(wd.Line)
		models = append(models, m)
		lowers = append(lowers, p.refRegex(m, false))
		uppers = append(uppers, p.refRegex(m, true))
	}
	if p.Concat {
		lowers = []string{regexp.QuoteMeta(p.Pre) + "(?:" + strings.Join(lowers, "|") + ")" + regexp.QuoteMeta(p.Post)}
		uppers = []string{regexp.QuoteMeta(p.Pre) + "(?:" + strings.Join(uppers, "|") + ")" + regexp.QuoteMeta(p.Post)}
	}
	for _, o := range p.Others {
		lowers = append(lowers, regexp.QuoteMeta(o))
		uppers = append(uppers, regexp.QuoteMeta(o))
	}
	upper, err := regexp.Compile(`^(?:` + strings.Join(uppers, "|") + `)$`)
	if err != nil {
		machinery("reference regex does not compile: %v", err)
	}
	lower, err := regexp.Compile(`^(?:` + strings.Join(lowers, "|") + `)$`)
	if err != nil {
		machinery("reference regex does not compile: %v", err)
	}
	seedIdx := 0
	next := func(n int) int {
		v := p.Seeds[seedIdx%len(p.Seeds)]
		seedIdx++
		return v % n
	}
	spaces := []string{" ", "\t", "  ", " \t ", "\n"}
	for wi, m := range models {
		if m.Verbatim != "" {
			// a verbatim line is an ordinary regex: its own sample strings must match in context, halves of the concatenation must not
			for _, smp := range verbatimSamples[m.Verbatim] {
				pos := p.Pre + smp + p.Post
				if !gen.MatchString(pos) {
					add("must-match", "verbatim-line", fmt.Sprintf("%q is matched by the verbatim line %q (in context) but not by the generated regex", pos, p.Words[wi].Line), "")
					return viol, true, ""
				}
				if p.Concat {
					for _, ng := range []string{p.Pre + smp, smp + p.Post, smp} {
						if !upper.MatchString(ng) && gen.MatchString(ng) {
							add("must-not-match", "verbatim-line", fmt.Sprintf("%q is only a part of the concatenation around the verbatim line %q but the generated regex matches it", ng, p.Words[wi].Line), "")
							return viol, true, ""
						}
					}
				}
			}
			continue
		}
		for k := 0; k < 8; k++ {
			// positive: the word with evasion samples interleaved, blanks as 1..3 white-space characters, demanded suffix appended
			var sbd strings.Builder
			for i, c := range m.Chars {
				if i > 0 && k > 0 {
					sbd.WriteString(p.E.Samples[next(len(p.E.Samples))])
				}
				if c == ' ' {
					if k == 0 {
						sbd.WriteString(" ")
					} else {
						sbd.WriteString(spaces[next(len(spaces))])
					}
				} else {
					sbd.WriteByte(c)
				}
			}
			if m.Suffix != nil && m.Suffix.Text != "" {
				sbd.WriteString(m.Suffix.Samples[next(len(m.Suffix.Samples))])
			}
			pos := p.Pre + sbd.String() + p.Post
			if !lower.MatchString(pos) {
				machinery("positive sample %q is not in the reference language (bad sample table)", pos)
			}
			if !gen.MatchString(pos) {
				what := "word-itself"
				if k > 0 {
					what = "evasion-variant"
				}
				add("must-match", what, fmt.Sprintf("%q is the listed command %q (with configured evasion / suffix text) but the generated regex does not match it", pos, p.Words[wi].Line), "")
				return viol, true, ""
			}
		}
		// negatives derived from "literal", "demands", "one or more"
		word := string(m.Chars)
		var negs []string
		for i, c := range m.Chars {
			if c == '.' || c == '-' {
				negs = append(negs, word[:i]+"x"+word[i+1:])
			}
			if c == ' ' {
				negs = append(negs, word[:i]+word[i+1:])
			}
		}
		if m.Suffix != nil && m.Suffix.Text != "" {
			negs = append(negs, word)
			negs = append(negs, word+"q")
		}
		if len(m.Chars) > 1 {
			negs = append(negs, word[:len(word)-1])
			negs = append(negs, word+word)
		}
		if p.Concat {
			for i := range negs {
				negs[i] = p.Pre + negs[i] + p.Post
			}
			// the block acts as a single unit: neither a bare word nor a half of the concatenation may match
			negs = append(negs, p.Pre+word, word+p.Post, word)
		}
		for _, ng := range negs {
			if upper.MatchString(ng) {
				continue // some reading of the block allows it
			}
			if gen.MatchString(ng) {
				add("must-not-match", "negative", fmt.Sprintf("%q is outside every reading of the block (derived from %q) but the generated regex matches it", ng, p.Words[wi].Line), "")
				return viol, true, ""
			}
		}
	}
	for _, o := range p.Others {
		if !gen.MatchString(o) {
			add("must-match", "other-entry", fmt.Sprintf("plain entry %q next to the block is not matched", o), "")
		}
	}
	return viol, true, fmt.Sprintf("%x|%s", sc.World.Hash(), p.ConfigMode)
}

func init() {
	register(&Property{
		ID: "C04", Level: "exploration",
		Rule: "scenario = cmdline unix|windows block with 1-6 command words over letters, digits, `.`, `-`, `_`, blank with optional @ / ~ / \\@ / \\~ and verbatim (') lines, alone, next to plain entries, nested in an assemble block, or concatenated between `##!=>` markers inside an assemble block x configuration state of regex-assembly/toolchain.yaml: complete, partial (random keys missing), padded with white space, empty, torn after two thirds (syntactically broken), well-formed with a value of the wrong type (the decoder fails after filling the other fields), another file selected with -f, absent, open failing with EACCES / ELOOP (I/O seam), a directory in its place (read fails) x pattern triple drawn from a pool whose members come with positive sample strings x a schedule; in a quarter of the scenarios the expression is what `update` stores in the rules file (same -f) instead of what generate prints. Oracles: two reference languages built from the statement (lower = characters with the effective evasion pattern between them, `.` / `-` literal, blank = white space+, demanded suffix; upper additionally tolerates one evasion token before the suffix): every positive sample (word itself; 7 variants with evasion samples interleaved and the suffix sample appended) must match the generated regex, every negative sample (`.`/`-` replaced, blank removed, demanded suffix dropped, truncated, doubled) outside upper must not; every failed configuration must give output byte-identical to the explicit empty configuration. Non-trivial = every scenario; distinct = distinct (world, configuration mode).",
		Gen:  genC04, Eval: evalC04,
		QuickChecks: 2500, ThoroughChecks: 40000, Timeout: 20 * time.Second,
		Assumptions: []string{
			"evasion patterns of the pool are nullable (as in CRS), otherwise 'matches the word itself' could not hold",
			"membership is decided with Go's regexp; the vertical tab is outside the sampled white space",
			"honest note: only the configuration / fault dimension is simulation proper; the word x variant dimension is generated-input checking",
		},
		RealStub: realStubDefault,
	})
}
