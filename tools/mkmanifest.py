#!/usr/bin/env python3
"""Regenerates /verif/MANIFEST.json from the table below (kept next to the checks so that the
manifest is valid at every commit). Usage: tools/mkmanifest.py"""
import json, os, sys

HERE = os.path.dirname(os.path.dirname(os.path.abspath(__file__)))

NA = {
 "C01": "language equivalence between the generated regex and the file's plain reading is a functional oracle on one output of the pure compiler (string -> string); no schedule, fault, history or environment decides it, so deterministic simulation has nothing to simulate (DESIGN.md section 4, C01)",
 "C02": "a per-character text-shape predicate on the single output of the pure compiler, falsified only by particular inputs; checking it would be input generation in simulator vocabulary (DESIGN.md section 4, C02)",
 "C05": "compares the compiler's output for two different trees (with the include / with its lines typed in place); no schedule, fault, history or environment is involved; the one fault-like clause (flags line in an include is rejected) is exercised as a fault class of C16 (DESIGN.md section 4, C05)",
 "C19": "crash- and hang-freedom on arbitrary bytes is fuzzing of a pure function and promptness is wall-clock, not simulated time (DESIGN.md section 4, C19)",
}

# id -> (level category, level text, level note, technique, design_ref)
CHECKS = {}

def add(pid, cat, text, note, technique, ref):
    CHECKS[pid] = (cat, text, note, technique, ref)

exec(open(os.path.join(HERE, "tools", "checks_table.py")).read())

ALL = ["C%02d" % i for i in range(1, 21)]
checks = []
for pid in ALL:
    if pid not in CHECKS:
        continue
    cat, text, note, technique, ref = CHECKS[pid]
    checks.append({
        "property_id": pid,
        "quick_cmd": "./check %s quick" % pid,
        "thorough_cmd": "./check %s thorough" % pid,
        "evidence_file": "/verif/evidence/%s.json" % pid,
        "replay_cmd_template": "./check replay {path}",
        "engine": "crssim",
        "level_claimed": {"category": cat, "text": text, "design_ref": ref},
        "level_note": note,
        "technique": technique,
    })
na = []
for pid in ALL:
    if pid in CHECKS:
        continue
    reason = NA.get(pid, "claimed in DESIGN.md but its check is not built yet in this commit")
    na.append({"property_id": pid, "reason": reason})

manifest = {
 "version": 1,
 "setup_cmd": "./check setup",
 "hooks": {
  "guard": "verif",
  "enable": "no hook is committed in /repo: ./check copies /repo's working tree to a scratch directory under /var/tmp, inserts the seams there mechanically (sim/cmd/instrument: type-driven AST rewriting of range-over-map, os.Open/ReadFile/WriteFile/Stat, filepath.WalkDir/Glob, time.Now; plus the simrt runtime package and an init file tagged `verif`) and builds that copy with -tags verif; the scratch copy is deleted, the binaries are cached by tree hash in /verif/.build",
  "baseline_off_cmd": "cd /repo && go test -mod=mod -vet=off -count=1 -timeout 25m ./...",
  "source_commits": [],
  "add_only": True
 },
 "engines": [{
  "name": "crssim",
  "path": "/verif/sim",
  "serves_properties": [c["property_id"] for c in checks],
  "kind_free_text": "deterministic simulator: seeded scenario generator (rapid v1.3.0 as the only choice source) -> world on tmpfs -> every CLI invocation is one child process of the instrumented binary under a chosen map-iteration / directory-order schedule, I/O fault plan, simulated clock and simulated network -> oracles over the recorded history; shrinking, self-contained replay files, known-findings file"
 }],
 "checks": checks,
 "notes": "See DESIGN.md. ./check <ID> quick|thorough; ./check replay <file>; ./check selftest. Exit 2 means build or machinery trouble (never a verdict).",
 "not_applicable": na,
}
json.dump(manifest, open(os.path.join(HERE, "MANIFEST.json"), "w"), indent=1)
print("MANIFEST.json: %d checks, %d not applicable/unclaimed" % (len(checks), len(na)))
