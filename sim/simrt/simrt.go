// Package simrt is the runtime half of the simulator seams. It is copied
// verbatim into the scratch copy of the repository (internal/simrt) and the
// instrumenter rewrites the repository's sources to call it:
//
//	for k, v := range m        -> for _, it := range simrt.Iter(m, site) {...}
//	os.Open/ReadFile/WriteFile -> simrt.Open/ReadFile/WriteFile ...
//	filepath.WalkDir/Glob      -> simrt.WalkDir/Glob
//	time.Now                   -> simrt.Now
//
// Every decision (iteration order, directory order, which call fails, what
// the network answers, what time it is) is read from the plan file named by
// CRS_SIM_PLAN; the simulator driver writes that file from its PRNG. Without
// a plan the runtime is the identity schedule: sorted map keys, lexical
// directory order, pass-through I/O, a fixed clock and an unreachable network.
//
// The package depends on the standard library only so that it also compiles
// (and is imported for its Plan/Event types) inside the driver module.
package simrt

import (
	"encoding/json"
	"fmt"
	"os"
	"sync"
	"time"
)

// Plan is everything the driver decides for one child process.
type Plan struct {
	// MapAll is the order decision for map-range sites not listed in MapDefault.
	MapAll       int            `json:"map_all,omitempty"`
	MapDefault   map[string]int `json:"map_default,omitempty"`
	MapOverrides []Override     `json:"map_overrides,omitempty"`
	// Directory enumeration (WalkDir / Glob) decisions, same encoding.
	DirAll       int            `json:"dir_all,omitempty"`
	DirDefault   map[string]int `json:"dir_default,omitempty"`
	DirOverrides []Override     `json:"dir_overrides,omitempty"`
	IOFaults     []IOFault      `json:"io_faults,omitempty"`
	// StdinChunks makes reads from standard input short: the i-th Read returns at most
	// StdinChunks[i % len] bytes (a legal behaviour of any stream, e.g. a pipe fed in instalments).
	StdinChunks []int `json:"stdin_chunks,omitempty"`
	// NowUnix is the simulated instant (seconds); 0 means DefaultNow.
	NowUnix int64    `json:"now_unix,omitempty"`
	Net     *NetPlan `json:"net,omitempty"`
}

// Override fixes the decision for the K-th event (1-based, counting only
// events with at least two elements) at Site.
type Override struct {
	Site string `json:"site"`
	K    int    `json:"k"`
	D    int    `json:"d"`
}

// IOFault makes the Nth call (1-based; 0 = every call) of Op whose path ends
// in PathSuffix fail with Kind.
type IOFault struct {
	Op         string `json:"op"` // open | readfile | writefile | stat
	PathSuffix string `json:"path_suffix"`
	Nth        int    `json:"nth,omitempty"`
	Kind       string `json:"kind"`          // eacces | enoent | eio | eloop | erofs | enospc
	Arg        int    `json:"arg,omitempty"` // enospc: number of bytes that reach the file before the error
}

// DefaultNow is the simulated instant when the plan names none: 2026-01-01T00:00:00Z.
const DefaultNow int64 = 1767225600

var (
	mu        sync.Mutex
	plan      Plan
	planned   bool
	traceFile *os.File
	mapCount  = map[string]int{}
	dirCount  = map[string]int{}
	ioCount   = map[int]int{}
)

func init() {
	if p := os.Getenv("CRS_SIM_PLAN"); p != "" {
		data, err := os.ReadFile(p)
		if err != nil {
			fmt.Fprintf(os.Stderr, "simrt: cannot read plan: %v\n", err)
			os.Exit(97)
		}
		if err := json.Unmarshal(data, &plan); err != nil {
			fmt.Fprintf(os.Stderr, "simrt: cannot parse plan: %v\n", err)
			os.Exit(97)
		}
		planned = true
	}
	if p := os.Getenv("CRS_SIM_TRACE"); p != "" {
		f, err := os.OpenFile(p, os.O_WRONLY|os.O_CREATE|os.O_APPEND, 0o644)
		if err != nil {
			fmt.Fprintf(os.Stderr, "simrt: cannot open trace: %v\n", err)
			os.Exit(97)
		}
		traceFile = f
	}
	installNet()
}

// trace appends one tab-separated record; unbuffered because the child may
// call os.Exit at any point.
func trace(kind string, fields ...any) {
	if traceFile == nil {
		return
	}
	line := kind
	for _, f := range fields {
		switch v := f.(type) {
		case string:
			line += "\t" + fmt.Sprintf("%q", v)
		default:
			line += "\t" + fmt.Sprint(v)
		}
	}
	_, _ = traceFile.WriteString(line + "\n")
}

// Now is the simulated clock.
func Now() time.Time {
	n := plan.NowUnix
	if n == 0 {
		n = DefaultNow
	}
	return time.Unix(n, 0).UTC()
}

// decision returns the order decision for the next event at site.
func decision(site string, n int, all int, def map[string]int, ov []Override, count map[string]int) (int, int) {
	k := 0
	if n >= 2 {
		count[site]++
		k = count[site]
	}
	d := all
	if v, ok := def[site]; ok {
		d = v
	}
	if n >= 2 {
		for _, o := range ov {
			if o.Site == site && o.K == k {
				d = o.D
			}
		}
	}
	return d, k
}

// Permutation returns the visiting order of n canonically sorted elements for
// decision d: 0 identity, 1 reverse, 2..9 rotation by d-1, otherwise a
// Fisher-Yates shuffle seeded by d (splitmix64).
func Permutation(n int, d int) []int {
	p := make([]int, n)
	for i := range p {
		p[i] = i
	}
	if n < 2 {
		return p
	}
	switch {
	case d == 0:
	case d == 1:
		for i, j := 0, n-1; i < j; i, j = i+1, j-1 {
			p[i], p[j] = p[j], p[i]
		}
	case d >= 2 && d <= 9:
		r := (d - 1) % n
		for i := range p {
			p[i] = (i + r) % n
		}
	default:
		x := uint64(d)
		next := func() uint64 {
			x += 0x9e3779b97f4a7c15
			z := x
			z = (z ^ (z >> 30)) * 0xbf58476d1ce4e5b9
			z = (z ^ (z >> 27)) * 0x94d049bb133111eb
			return z ^ (z >> 31)
		}
		for i := n - 1; i > 0; i-- {
			j := int(next() % uint64(i+1))
			p[i], p[j] = p[j], p[i]
		}
	}
	return p
}

func isIdentity(p []int) bool {
	for i, v := range p {
		if i != v {
			return false
		}
	}
	return true
}

func permString(p []int) string {
	s := ""
	for i, v := range p {
		if i > 0 {
			s += ","
		}
		s += fmt.Sprint(v)
	}
	return s
}
