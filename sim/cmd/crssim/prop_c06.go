package main

import (
	"bytes"
	"encoding/json"
	"fmt"
	"regexp"
	"sort"
	"strings"
	"time"

	"pgregory.net/rapid"

	"crssim/simrt"
)

// C06 - include-except removes exactly the excluded entries and suffix pairs
// rewrite only endings. Simulator part: the orders of the pair map and of the
// include map; oracle: a reference set-difference / suffix model on the structure.

type C06Params struct {
	Prog string `json:"prog"`
	// Typed is the program with the model's result typed in place of the
	// directive; empty when the statement does not pin the order / winner down
	// (duplicates in F, competing pairs).
	Typed string `json:"typed,omitempty"`
	// TypedAlts: with duplicates in F the statement still demands F's relative order; every choice of which
	// occurrence represents a duplicated entry is a legal reading, the output must equal one of them.
	TypedAlts []string `json:"typed_alts,omitempty"`
	// Expect: for every contributed entry the set of acceptable rewritten forms
	// (more than one only when several pairs compete for the entry).
	Expect [][]string `json:"expect"`
	// Universe: every word that could wrongly survive or wrongly appear.
	Universe []string `json:"universe"`
	// Optional: forms that may or may not appear (an entry that one order of competing pairs deletes)
	Optional []string     `json:"optional,omitempty"`
	Plans    []simrt.Plan `json:"plans"`
	Kind     string       `json:"kind"` // include | include-except
	Features []string     `json:"features"`
}

type suffixPair struct{ Old, New string }

func applyPair(e string, p suffixPair) string {
	if strings.HasSuffix(e, p.Old) {
		e = strings.TrimSuffix(e, p.Old)
		if p.New != `""` {
			e += p.New
		}
	}
	return e
}

// rewriteForms returns the acceptable results of rewriting e: the statement
// fixes the result when at most one pair applies; when pairs compete (overlapping
// keys, cascades) every sequential application order is accepted.
func rewriteForms(e string, pairs []suffixPair) []string {
	if len(pairs) == 0 {
		return []string{e}
	}
	set := map[string]bool{}
	idx := make([]int, len(pairs))
	for i := range idx {
		idx[i] = i
	}
	var rec func(k int)
	rec = func(k int) {
		if k == len(idx) {
			x := e
			for _, i := range idx {
				x = applyPair(x, pairs[i])
			}
			set[x] = true
			return
		}
		for i := k; i < len(idx); i++ {
			idx[k], idx[i] = idx[i], idx[k]
			rec(k + 1)
			idx[k], idx[i] = idx[i], idx[k]
		}
	}
	rec(0)
	// a single applicable pair, applied once, is always acceptable and is the only reading when nothing competes
	out := make([]string, 0, len(set))
	for s := range set {
		out = append(out, s)
	}
	sort.Strings(out)
	return out
}

// lit is the string an entry matches: entries are words, possibly with one escaped punctuation character
func lit(e string) string { return strings.ReplaceAll(e, `\`, "") }

func genC06(t *rapid.T, tier string) (*World, any) {
	w := NewWorld()
	p := &C06Params{}
	feat := map[string]bool{}
	endings := []string{"s", "es", "t", "x", "tes", "u", "e", "le"}
	// flags of the including file do not change which entries are contributed
	iflag := chance(t, 20, "iflag")
	// the include file F
	defs := map[string]string{}
	var fLines []string
	var fEntries []string // expanded entries in order
	if chance(t, 30, "fdefs") {
		defs["wd"] = pick(t, []string{"qq", "rs", "t"}, "defv")
		fLines = append(fLines, "##!> define wd "+defs["wd"])
		feat["definitions"] = true
	}
	nf := drawInt(t, 1, 12, "nf")
	if tier == "thorough" && chance(t, 10, "bigF") {
		nf = drawInt(t, 30, 60, "nf-big")
	}
	for i := 0; i < nf; i++ {
		switch drawInt(t, 0, 11, "fkind") {
		case 0:
			fLines = append(fLines, "")
			feat["blank"] = true
		case 1:
			fLines = append(fLines, "##! note "+pick(t, endings, "cend"))
			feat["comment"] = true
		case 3:
			if iflag && len(fEntries) > 0 && chance(t, 50, "casevar") {
				// the same word in another spelling of upper / lower case is a different entry. Only under the i flag: without it
				// the compiler's clean-up pass loses one of the spellings (`a` + `A` -> `[Aa]` -> `(?i:A)` -> `A`), which is the
				// business of the language-equivalence property, not of include-except
				e := fEntries[drawInt(t, 0, len(fEntries)-1, "casevar-of")]
				v := strings.ToUpper(e[:1]) + e[1:]
				if v != e && !strings.Contains(e, "{{") {
					fLines = append(fLines, v)
					fEntries = append(fEntries, v)
					feat["case-variant"] = true
					continue
				}
			}
			fallthrough
		case 2:
			if len(fEntries) > 0 {
				// duplicate
				e := fEntries[drawInt(t, 0, len(fEntries)-1, "dup")]
				fLines = append(fLines, e)
				fEntries = append(fEntries, e)
				feat["duplicate"] = true
				continue
			}
			fallthrough
		default:
			// the first letter is never a pair key, so no entry is rewritten into nothing
			e := pick(t, []string{"a", "b", "c", "d"}, "fw0") + drawWord(t, 0, 3, "fw")
			if chance(t, 6, "ftrail") {
				// white space at the end of an entry belongs to the entry (`git ` is not `git`); both may be listed
				if chance(t, 50, "ftrail-both") {
					fLines = append(fLines, e)
					fEntries = append(fEntries, e)
				}
				e += pick(t, []string{" ", "\t"}, "ftrailv")
				feat["trailing-blank-entry"] = true
			} else if chance(t, 55, "fend") {
				e += pick(t, endings, "fe")
			} else if chance(t, 15, "fesc") {
				e += pick(t, []string{`\@`, `\.s`, `\-x`}, "fescv") // an escaped character right before / as the ending
			}
			raw := e
			if len(defs) > 0 && chance(t, 30, "fref") {
				raw = e + "{{wd}}"
				e = e + defs["wd"]
			}
			fLines = append(fLines, raw)
			fEntries = append(fEntries, e)
		}
	}
	if len(fEntries) == 0 {
		fLines = append(fLines, "solo")
		fEntries = append(fEntries, "solo")
	}
	seenEntry := map[string]bool{}
	for _, e := range fEntries {
		if seenEntry[e] {
			feat["duplicate"] = true
		}
		seenEntry[e] = true
	}
	w.Put("crs/regex-assembly/include/words.ra", joinLines(fLines))
	// exclude files
	p.Kind = pick(t, []string{"include-except", "include-except", "include"}, "kind")
	excluded := map[string]bool{}
	var excNames []string
	universe := map[string]bool{}
	for _, e := range fEntries {
		universe[lit(e)] = true
	}
	if p.Kind == "include-except" {
		nx := drawInt(t, 1, 3, "nx")
		for i := 0; i < nx; i++ {
			name := fmt.Sprintf("ex%d", i+1)
			var xl []string
			style := drawInt(t, 0, 3, "xstyle")
			switch style {
			case 0: // empty
				feat["empty-exclude"] = true
			case 1: // disjoint
				for k := 0; k < drawInt(t, 1, 3, "xn"); k++ {
					xl = append(xl, "zz"+drawWord(t, 1, 3, "xw"))
				}
			default: // overlapping, possibly larger than F
				for _, e := range fEntries {
					if chance(t, 40, "xpick") {
						raw := e
						if len(defs) > 0 && strings.HasSuffix(e, defs["wd"]) && chance(t, 50, "xref") {
							raw = strings.TrimSuffix(e, defs["wd"]) + "{{wd}}"
						}
						xl = append(xl, raw)
						excluded[e] = true
					}
				}
				for k := 0; k < drawInt(t, 0, 4, "xextra"); k++ {
					xl = append(xl, "zz"+drawWord(t, 1, 3, "xw2"))
				}
				if chance(t, 30, "xcomment") {
					xl = append(xl, "##! comment", "")
				}
			}
			for _, x := range xl {
				if !strings.HasPrefix(x, "##!") && x != "" {
					universe[strings.ReplaceAll(x, "{{wd}}", defs["wd"])] = true
				}
			}
			w.Put("crs/regex-assembly/exclude/"+name+".ra", joinLines(xl))
			excNames = append(excNames, name)
		}
		if len(excNames) > 1 {
			feat["multi-exclude"] = true
		}
	}
	// for a plain include, F may be a block: the pairs rewrite the entries inside it, never the directive lines
	blockF := ""
	if p.Kind == "include" && chance(t, 25, "blockF") {
		blockF = pick(t, []string{"##!> cmdline unix", "##!> cmdline windows", "##!> assemble"}, "blockkind")
		for _, e := range fEntries {
			if strings.Contains(e, `\`) {
				blockF = "##!> assemble" // command words of a cmdline block are not regular expressions: a backslash is a character there
			}
		}
		w.Put("crs/regex-assembly/include/words.ra", joinLines(append(append([]string{blockF}, fLines...), "##!<")))
		feat["block-in-include"] = true
	}
	// suffix pairs
	var pairs []suffixPair
	pairText := ""
	if chance(t, 65, "pairs") {
		switch drawInt(t, 0, 3, "pstyle") {
		case 0:
			n := drawInt(t, 1, 3, "pn")
			keys := []string{"s", "t", "u", "x"}
			for i := 0; i < n; i++ {
				pairs = append(pairs, suffixPair{keys[i], keys[i+1]})
			}
			if n > 1 {
				feat["cascade"] = true
			}
		case 1:
			ov := []suffixPair{{"s", "z"}, {"es", "y"}, {"tes", "w"}}
			n := drawInt(t, 1, 3, "pn")
			pairs = append(pairs, ov[:n]...)
			if n > 1 {
				feat["overlap"] = true
			}
		default:
			used := map[string]bool{}
			if chance(t, 25, "atpair") {
				pairs = append(pairs, suffixPair{"@", "~"})
				used["@"] = true
			}
			for i := 0; i < drawInt(t, 1, 3, "pn"); i++ {
				k := pick(t, endings, "pk")
				if used[k] {
					continue
				}
				used[k] = true
				v := drawWord(t, 1, 2, "pv")
				if chance(t, 30, "pempty") {
					v = `""`
					feat["empty-replacement"] = true
				}
				pairs = append(pairs, suffixPair{k, v})
			}
		}
		var parts []string
		for _, pr := range pairs {
			parts = append(parts, pr.Old, pr.New)
		}
		pairText = " -- " + strings.Join(parts, " ")
		feat["pairs"] = true
	}
	// one word listed with both endings of a pair, the second one excluded: the survivor is rewritten INTO the excluded text and stays
	if len(pairs) > 0 && p.Kind == "include-except" && len(excNames) > 0 && chance(t, 20, "twin-endings") {
		pr := pairs[drawInt(t, 0, len(pairs)-1, "twin-pair")]
		base := "tw" + drawWord(t, 1, 3, "twin-base")
		a, b := base+pr.Old, base+pr.New
		if pr.New != `""` && !seenEntry[a] && !seenEntry[b] {
			fLines = append(fLines, a, b)
			fEntries = append(fEntries, a, b)
			seenEntry[a], seenEntry[b] = true, true
			excluded[b] = true
			universe[lit(a)], universe[lit(b)] = true, true
			w.Put("crs/regex-assembly/include/words.ra", joinLines(fLines))
			xp := "crs/regex-assembly/exclude/" + excNames[0] + ".ra"
			w.Put(xp, w.Files[xp].Text+b+"\n")
			feat["rewritten-into-an-exclusion"] = true
		}
	}
	// an entry that IS a pair's key (not merely ends in it) is rewritten as well; only for pairs that do not delete
	if len(pairs) > 0 && chance(t, 25, "entry-is-key") {
		pr := pairs[drawInt(t, 0, len(pairs)-1, "which-key")]
		if pr.New != `""` && !seenEntry[pr.Old] {
			fLines = append(fLines, pr.Old)
			fEntries = append(fEntries, pr.Old)
			seenEntry[pr.Old] = true
			universe[pr.Old] = true
			if blockF != "" {
				w.Put("crs/regex-assembly/include/words.ra", joinLines(append(append([]string{blockF}, fLines...), "##!<")))
			} else {
				w.Put("crs/regex-assembly/include/words.ra", joinLines(fLines))
			}
			feat["entry-is-key"] = true
		}
	}
	// the model
	var survivors []string
	for _, e := range fEntries {
		if !excluded[e] {
			survivors = append(survivors, e)
		}
	}
	competing := false
	optional := map[string]bool{}
	var typedWords []string
	for _, e := range survivors {
		forms := rewriteForms(e, pairs)
		if len(forms) > 1 {
			competing = true
		}
		// drop entries that a `""` replacement turns into nothing (the line becomes blank)
		nonEmpty := forms[:0:0]
		mayVanish := false
		for _, f := range forms {
			if f != "" {
				nonEmpty = append(nonEmpty, f)
			} else {
				mayVanish = true
			}
		}
		if len(nonEmpty) == 0 {
			continue
		}
		if mayVanish {
			// competing pairs, one of which deletes: in some application order the entry is rewritten into nothing,
			// which the statement does not rule out; its other forms are acceptable but not demanded
			for _, f := range nonEmpty {
				universe[lit(f)] = true
				optional[lit(f)] = true
			}
			continue
		}
		litForms := make([]string, len(nonEmpty))
		for i, f := range nonEmpty {
			litForms[i] = lit(f)
		}
		p.Expect = append(p.Expect, litForms)
		typedWords = append(typedWords, nonEmpty[0])
		for _, f := range nonEmpty {
			universe[lit(f)] = true
		}
	}
	for _, e := range fEntries {
		for _, f := range rewriteForms(e, pairs) {
			if f != "" {
				universe[lit(f)] = true
			}
		}
	}
	// the including program
	directive := "##!> " + p.Kind + " words"
	if p.Kind == "include-except" {
		directive += " " + strings.Join(excNames, " ")
	}
	directive += pairText
	var pre, post []string
	extra := []string{}
	if iflag {
		pre = append(pre, "##!+ i")
		feat["i-flag"] = true
	}
	if chance(t, 40, "extra") {
		e := "yy" + drawWord(t, 1, 3, "extra-w")
		pre = append(pre, e)
		extra = append(extra, e)
	}
	if chance(t, 30, "extra2") {
		e := "yx" + drawWord(t, 1, 3, "extra-w2")
		post = append(post, e)
		extra = append(extra, e)
	}
	inBlock := chance(t, 35, "inblock")
	build := func(mid []string) string {
		var lines []string
		lines = append(lines, pre...)
		if inBlock {
			lines = append(lines, "##!> assemble")
			for _, m := range mid {
				lines = append(lines, "  "+m)
			}
			lines = append(lines, "##!<")
		} else {
			lines = append(lines, mid...)
		}
		lines = append(lines, post...)
		return joinLines(lines)
	}
	if inBlock {
		feat["in-block"] = true
	}
	mid := []string{directive}
	var twinTyped []string
	if p.Kind == "include-except" && chance(t, 20, "twin") {
		// two include files define the same name differently and share one exclude file that refers to it
		w.Put("crs/regex-assembly/include/twin-a.ra", "##!> define sep mm\nfoo{{sep}}bar\nkeepa\n")
		w.Put("crs/regex-assembly/include/twin-b.ra", "##!> define sep nn\nfoo{{sep}}bar\nkeepb\n")
		w.Put("crs/regex-assembly/exclude/twin-x.ra", "foo{{sep}}bar\n")
		mid = append(mid, "##!> include-except twin-a twin-x", "##!> include-except twin-b twin-x")
		twinTyped = []string{"keepa", "keepb"}
		for _, k := range twinTyped {
			p.Expect = append(p.Expect, []string{k})
			universe[k] = true
		}
		universe["foommbar"] = true
		universe["foonnbar"] = true
		feat["twin-directives"] = true
	}
	sameTwice := false
	if p.Kind == "include-except" && blockF == "" && chance(t, 15, "same-F-twice") {
		// a second directive on the same include file, with exclusions of its own, in a block of its own
		var x2 []string
		ex2 := map[string]bool{}
		for _, e := range fEntries {
			if chance(t, 35, "x2pick") {
				x2 = append(x2, e)
				ex2[e] = true
			}
		}
		w.Put("crs/regex-assembly/exclude/second.ra", joinLines(x2))
		mid = append(mid, "##!> assemble", "  zq", "  ##!=>", "  ##!> include-except words second", "##!<")
		for _, e := range fEntries {
			universe["zq"+lit(e)] = true
			if !ex2[e] {
				p.Expect = append(p.Expect, []string{"zq" + lit(e)})
			}
		}
		universe["zq"] = true
		if len(x2) > 0 && len(ex2) == len(seenEntry) {
			p.Expect = append(p.Expect, []string{"zq"}) // everything excluded: the block is its first part alone
		}
		sameTwice = true
		feat["same-include-file-twice"] = true
	}
	p.Prog = build(mid)
	for _, e := range extra {
		p.Expect = append(p.Expect, []string{e})
		universe[e] = true
	}
	if blockF != "" || sameTwice {
		// membership only: a block inside the include is grouped differently from entries typed in place
	} else if !feat["duplicate"] && !competing {
		p.Typed = build(append(append([]string{}, typedWords...), twinTyped...))
	} else if feat["duplicate"] && !competing {
		// positions of every distinct surviving entry
		pos := map[string][]int{}
		var distinct []string
		for i, e := range survivors {
			if _, ok := pos[e]; !ok {
				distinct = append(distinct, e)
			}
			pos[e] = append(pos[e], i)
		}
		seenAlt := map[string]bool{}
		var rec func(k int, chosen map[string]int)
		rec = func(k int, chosen map[string]int) {
			if len(p.TypedAlts) >= 24 {
				return
			}
			if k == len(distinct) {
				order := append([]string{}, distinct...)
				sort.Slice(order, func(a, b int) bool { return chosen[order[a]] < chosen[order[b]] })
				var words []string
				for _, e := range order {
					f := rewriteForms(e, pairs)
					if f[0] != "" {
						words = append(words, f[0])
					}
				}
				txt := build(append(words, twinTyped...))
				if !seenAlt[txt] {
					seenAlt[txt] = true
					p.TypedAlts = append(p.TypedAlts, txt)
				}
				return
			}
			for _, at := range pos[distinct[k]] {
				chosen[distinct[k]] = at
				rec(k+1, chosen)
			}
		}
		rec(0, map[string]int{})
	}
	if competing {
		feat["competing"] = true
	}
	p.Universe = sortedKeys(universe)
	p.Optional = sortedKeys(optional)
	if len(optional) > 0 {
		competing = true
	}
	np := 2
	if tier == "thorough" {
		np = 5
	}
	for i := 0; i < np; i++ {
		p.Plans = append(p.Plans, drawPlan(t, fmt.Sprintf("plan%d", i), false))
	}
	p.Features = sortedKeys(feat)
	return w, p
}

func evalC06(sc *Scenario, sim *Sim) ([]Violation, bool, string) {
	var p C06Params
	if err := json.Unmarshal(sc.Params, &p); err != nil {
		machinery("params: %v", err)
	}
	sb := sim.NewSandbox(sc.World)
	defer sb.Close()
	gen := func(text string, plan simrt.Plan) Result {
		d := Text(text)
		return sb.Run(Step{Argv: []string{"regex", "generate", "-"}, Cwd: "crs", Stdin: &d, Plan: plan})
	}
	var viol []Violation
	feats := strings.Join(p.Features, "+")
	var typed *Result
	if p.Typed != "" {
		r := gen(p.Typed, simrt.Plan{})
		typed = &r
	}
	plans := append([]simrt.Plan{{}}, p.Plans...)
	var altOut []string
	for pi, plan := range plans {
		r := gen(p.Prog, plan)
		if r.Exit != 0 {
			if len(p.Expect) == 0 {
				continue
			}
			viol = append(viol, Violation{Prop: "C06", Oracle: "compiles",
				Sig:    "C06/compiles/" + p.Kind + "/" + feats,
				Msg:    fmt.Sprintf("generate failed (exit %d) on a well-formed %s program (schedule %d)", r.Exit, p.Kind, pi),
				Detail: fmt.Sprintf("program:\n%s\nstderr: %s", p.Prog, clip(r.Stderr))})
			return viol, true, ""
		}
		out := string(r.Stdout)
		if len(p.Expect) == 0 {
			if out != "" {
				viol = append(viol, Violation{Prop: "C06", Oracle: "membership", Sig: "C06/membership/extra/" + p.Kind + "/" + feats,
					Msg: "everything was excluded but generate printed a regex", Detail: fmt.Sprintf("program:\n%s\noutput: %q", p.Prog, out)})
				return viol, true, ""
			}
			continue
		}
		re, err := regexp.Compile(`^(?:` + out + `)$`)
		if err != nil {
			machinery("cannot compile generated regex %q: %v", out, err)
		}
		// under the i flag the expression cannot tell spellings of one word apart: membership is judged on folded words there
		// (the byte comparison with the typed-in program still sees every spelling)
		fold := func(s string) string { return s }
		for _, f := range p.Features {
			if f == "i-flag" {
				fold = strings.ToLower
			}
		}
		accepted := map[string]bool{}
		for _, o := range p.Optional {
			accepted[fold(o)] = true
		}
		for _, forms := range p.Expect {
			ok := false
			for _, f := range forms {
				accepted[fold(f)] = true
				if re.MatchString(f) {
					ok = true
				}
			}
			if !ok {
				viol = append(viol, Violation{Prop: "C06", Oracle: "membership", Sig: "C06/membership/missing/" + p.Kind + "/" + feats,
					Msg:    fmt.Sprintf("entry %q must be contributed but the generated regex does not match it (schedule %d)", forms, pi),
					Detail: fmt.Sprintf("program:\n%s\noutput: %q\nfiles: %s", p.Prog, out, worldText(sc.World))})
				return viol, true, ""
			}
		}
		for _, u := range p.Universe {
			if !accepted[fold(u)] && re.MatchString(u) {
				viol = append(viol, Violation{Prop: "C06", Oracle: "membership", Sig: "C06/membership/extra/" + p.Kind + "/" + feats,
					Msg:    fmt.Sprintf("word %q must not be contributed (excluded, or not a legal rewrite) but the generated regex matches it (schedule %d)", u, pi),
					Detail: fmt.Sprintf("program:\n%s\noutput: %q\nfiles: %s", p.Prog, out, worldText(sc.World))})
				return viol, true, ""
			}
		}
		if len(p.TypedAlts) > 0 && len(p.TypedAlts) < 24 {
			if altOut == nil {
				for _, a := range p.TypedAlts {
					ar := gen(a, simrt.Plan{})
					altOut = append(altOut, string(ar.Stdout))
				}
			}
			ok := false
			for _, a := range altOut {
				if a == out {
					ok = true
				}
			}
			if !ok {
				viol = append(viol, Violation{Prop: "C06", Oracle: "typed-in-place", Sig: "C06/order-with-duplicates/" + p.Kind + "/" + feats,
					Msg:    fmt.Sprintf("F has duplicate entries; the output equals none of the %d programs that type the survivors in an order consistent with F (schedule %d)", len(p.TypedAlts), pi),
					Detail: fmt.Sprintf("program:\n%s\ngot: %q\nlegal: %q\nfiles: %s", p.Prog, out, altOut, worldText(sc.World))})
				return viol, true, ""
			}
		}
		if typed != nil && (typed.Exit != r.Exit || !bytes.Equal(typed.Stdout, r.Stdout)) {
			viol = append(viol, Violation{Prop: "C06", Oracle: "typed-in-place", Sig: "C06/order/" + p.Kind + "/" + feats,
				Msg:    fmt.Sprintf("generate differs from the program with the model's survivors typed in place (schedule %d)", pi),
				Detail: fmt.Sprintf("program:\n%s\ntyped:\n%s\ngot:      %q\nexpected: %q\nfiles: %s", p.Prog, p.Typed, out, clip(typed.Stdout), worldText(sc.World))})
			return viol, true, ""
		}
	}
	return viol, true, fmt.Sprintf("%x|%s", sc.World.Hash(), string(sc.Params))
}

func worldText(w *World) string {
	var sb strings.Builder
	for _, k := range sortedKeys(w.Files) {
		sb.WriteString("\n--- " + k + "\n" + clip(w.Files[k].Bytes()))
	}
	return sb.String()
}

func init() {
	register(&Property{
		ID:          "C06",
		Level:       "exploration",
		Rule:        "scenario = word-list include file F (1-12 entries, thorough up to 60; duplicates, blank lines, comments, F-local definitions) x `include` or `include-except` with 1-3 exclude files (empty, disjoint, overlapping, larger than F, using F's definitions) x 0-3 suffix pairs (disjoint, overlapping keys s/es/tes, cascades s->t t->u, \"\" deletions), at top level or inside an assemble block, with neighbouring entries, (20%) under an `i` flag line of the including file, then also with entries that differ in case only x identity + 2 / 5 seeded schedules over the pair-map and include-map sites; oracles: (membership) every entry the reference model keeps matches the generated regex and no other word of the universe (F, exclusions, rewritten and unrewritten forms) does; (order) byte equality with the program that has the model's result typed in place, when F has no duplicates and no pairs compete. Non-trivial = every scenario (each runs the directive); distinct = distinct (world, program, schedules).",
		Gen:         genC06,
		Eval:        evalC06,
		QuickChecks: 1200, ThoroughChecks: 20000, Timeout: 20 * time.Second,
		Assumptions: []string{
			"where several pairs compete for one entry (overlapping keys, cascades) the statement picks no winner: every sequential application order is accepted for exactly those entries; determinism of that case is C03's business",
			"duplicates in F: set semantics (membership) only, the order oracle is skipped",
			"membership is decided with Go's regexp on literal lower-case words (finite language)",
		},
		RealStub: realStubDefault,
	})
}
