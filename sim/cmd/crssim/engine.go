package main

import (
	"bytes"
	"encoding/json"
	"flag"
	"fmt"
	"hash/fnv"
	"os"
	"os/exec"
	"path/filepath"
	"runtime"
	"sort"
	"strings"
	"sync"
	"testing"
	"time"

	"pgregory.net/rapid"
)

// ---------------------------------------------------------------------------
// properties

// Violation is one oracle failure.
type Violation struct {
	Prop   string `json:"property"`
	Oracle string `json:"oracle"`
	// Sig identifies the failing shape (not the seed): <ID>/<oracle>/<discriminator>.
	Sig    string `json:"signature"`
	Msg    string `json:"message"`
	Detail string `json:"detail,omitempty"`
}

// Scenario is the self-contained replay file.
type Scenario struct {
	Format    string          `json:"format"` // crs-sim-scenario/1
	Prop      string          `json:"property"`
	Seed      int64           `json:"verif_seed"`
	Worker    int             `json:"worker"`
	Tier      string          `json:"tier"`
	World     *World          `json:"world"`
	Params    json.RawMessage `json:"params"`
	Violation *Violation      `json:"violation,omitempty"`
	Note      string          `json:"note,omitempty"`
}

// Property couples a generator (all choices drawn from rapid) with an
// evaluator that is a function of the scenario and the binaries only.
type Property struct {
	ID    string
	Level string // exploration | fault_enumeration
	Rule  string // how cases are generated and what makes one distinct / non-trivial
	// Gen draws a scenario. tier is "quick" or "thorough".
	Gen func(t *rapid.T, tier string) (*World, any)
	// Eval runs the scenario and returns every violation it sees. nontrivial
	// reports whether the run exercised what the property is about, key is the
	// identity used for the distinct count.
	Eval func(sc *Scenario, sim *Sim) (viol []Violation, nontrivial bool, key string)
	// Cells, when set, makes the check an enumeration: every cell is handed to
	// exactly one worker, which runs ChecksPerCell seeded scenarios for it (Gen
	// reads the cell from currentCell).
	Cells         func(tier string) []string
	ChecksPerCell func(tier string) int
	// Budget: number of rapid batches per worker and checks per batch.
	QuickChecks    int
	ThoroughChecks int
	Timeout        time.Duration
	Assumptions    []string
	RealStub       []string
}

var registry = map[string]*Property{}

// currentCell is the enumeration cell of the batch being run (see Property.Cells).
var currentCell string

func register(p *Property) { registry[p.ID] = p }

// ---------------------------------------------------------------------------
// known findings

type Finding struct {
	Property  string `json:"property"`
	Signature string `json:"signature"`
	What      string `json:"what"`
	Commit    string `json:"commit,omitempty"`
}

type KnownFindings struct {
	Open  []Finding `json:"open"`
	Fixed []Finding `json:"fixed"`
}

func loadKnown(verif string) *KnownFindings {
	k := &KnownFindings{}
	data, err := os.ReadFile(filepath.Join(verif, "known_findings.json"))
	if err != nil {
		return k
	}
	if err := json.Unmarshal(data, k); err != nil {
		fmt.Fprintf(os.Stderr, "crssim: known_findings.json: %v\n", err)
		os.Exit(2)
	}
	return k
}

func (k *KnownFindings) isOpen(sig string) *Finding {
	for i := range k.Open {
		if k.Open[i].Signature == sig {
			return &k.Open[i]
		}
	}
	return nil
}

// ---------------------------------------------------------------------------
// statistics

type Stats struct {
	mu          sync.Mutex
	Scenarios   int            `json:"scenarios"`
	Steps       int            `json:"steps"`
	PlainSteps  int            `json:"plain_steps"`
	Nontrivial  int            `json:"nontrivial"`
	Distinct    map[uint64]int `json:"distinct"` // key hash -> 1 (non-trivial, distinct)
	Worlds      map[uint64]int `json:"worlds"`
	PermVectors map[uint64]int `json:"perm_vectors"`
	MapEvents   map[string]int `json:"map_events"`   // site -> events with n >= 2
	MapPermuted map[string]int `json:"map_permuted"` // site -> events that received a non-identity order
	DirEvents   int            `json:"dir_events"`
	DirPermuted int            `json:"dir_permuted"`
	Faults      map[string]int `json:"faults"` // fault kind -> times it actually fired (from the trace)
	NetRequests int            `json:"net_requests"`
	Probes      map[string]int `json:"probes"`
	Known       map[string]int `json:"known"` // signature -> hits
	ExitCodes   map[int]int    `json:"exit_codes"`
	Samples     []any          `json:"samples"`
	PlainAgree  int            `json:"plain_agree"`
	WallS       float64        `json:"wall_s"`
	EarlyStop   bool           `json:"early_stop"`
	Violations  []*Scenario    `json:"violations"`
	ReplayFiles []string       `json:"replay_files"`
	Machinery   string         `json:"machinery,omitempty"`
	// SetHash is the XOR over all generated scenarios of a hash of (world, parameters): two runs with the same
	// VERIF_SEED must report the same value (the set of scenarios is a function of the seed alone).
	SetHash     uint64 `json:"set_hash"`
	curVec      uint64
	curPermuted bool
}

func NewStats() *Stats {
	return &Stats{Distinct: map[uint64]int{}, Worlds: map[uint64]int{}, PermVectors: map[uint64]int{},
		MapEvents: map[string]int{}, MapPermuted: map[string]int{}, Faults: map[string]int{},
		Probes: map[string]int{}, Known: map[string]int{}, ExitCodes: map[int]int{}}
}

func hash64(s string) uint64 {
	h := fnv.New64a()
	h.Write([]byte(s))
	return h.Sum64()
}

func (s *Stats) probe(name string) {
	s.mu.Lock()
	s.Probes[name]++
	s.mu.Unlock()
}

func (s *Stats) observe(st *Step, r *Result) {
	s.mu.Lock()
	defer s.mu.Unlock()
	s.Steps++
	if st.Plain {
		s.PlainSteps++
	}
	s.ExitCodes[r.Exit]++
	if st.NoFile > 0 {
		// a run under the descriptor limit (collector off); "reached" counts the runs in which the limit was actually hit
		s.Faults["resource:open-files-limit"]++
		if bytes.Contains(r.Stderr, []byte("too many open files")) {
			s.Faults["resource:open-files-limit:reached"]++
		}
	}
	vec := ""
	for _, e := range r.Trace {
		switch e.Kind {
		case "M":
			if len(e.Fields) >= 5 {
				s.MapEvents[e.Fields[0]]++
				if e.Fields[4] != "id" {
					s.MapPermuted[e.Fields[0]]++
					vec += e.Fields[0] + ":" + e.Fields[2] + ":" + e.Fields[4] + ";"
				}
			}
		case "D":
			s.DirEvents++
			if len(e.Fields) >= 6 && e.Fields[5] != "id" {
				s.DirPermuted++
				vec += "D" + e.Fields[1] + ":" + e.Fields[5] + ";"
			}
		case "IO":
			if len(e.Fields) >= 3 && strings.HasPrefix(e.Fields[2], "FAULT:") {
				s.Faults["io:"+e.Fields[0]+":"+strings.TrimPrefix(e.Fields[2], "FAULT:")]++
			}
			if len(e.Fields) >= 1 && e.Fields[0] == "stdin-read" {
				s.Faults["io:stdin:short-read"]++
			}
		case "NET":
			s.NetRequests++
			if len(e.Fields) >= 3 && strings.HasPrefix(e.Fields[2], "FAULT:") {
				s.Faults["net:"+strings.TrimPrefix(e.Fields[2], "FAULT:")]++
			}
		}
	}
	if vec != "" {
		s.curPermuted = true
		s.curVec ^= hash64(strings.Join(st.Argv, " ") + "|" + vec)
	}
}

func (s *Stats) merge(o *Stats) {
	s.Scenarios += o.Scenarios
	s.Steps += o.Steps
	s.PlainSteps += o.PlainSteps
	s.Nontrivial += o.Nontrivial
	s.DirEvents += o.DirEvents
	s.DirPermuted += o.DirPermuted
	s.NetRequests += o.NetRequests
	s.PlainAgree += o.PlainAgree
	s.EarlyStop = s.EarlyStop || o.EarlyStop
	s.SetHash ^= o.SetHash
	for k := range o.Distinct {
		s.Distinct[k] = 1
	}
	for k := range o.Worlds {
		s.Worlds[k] = 1
	}
	for k := range o.PermVectors {
		s.PermVectors[k] = 1
	}
	for k, v := range o.MapEvents {
		s.MapEvents[k] += v
	}
	for k, v := range o.MapPermuted {
		s.MapPermuted[k] += v
	}
	for k, v := range o.Faults {
		s.Faults[k] += v
	}
	for k, v := range o.Probes {
		s.Probes[k] += v
	}
	for k, v := range o.Known {
		s.Known[k] += v
	}
	for k, v := range o.ExitCodes {
		s.ExitCodes[k] += v
	}
	if len(s.Samples) < 4 {
		s.Samples = append(s.Samples, o.Samples...)
		if len(s.Samples) > 4 {
			s.Samples = s.Samples[:4]
		}
	}
	s.Violations = append(s.Violations, o.Violations...)
	s.ReplayFiles = append(s.ReplayFiles, o.ReplayFiles...)
	if o.Machinery != "" && s.Machinery == "" {
		s.Machinery = o.Machinery
	}
}

// ---------------------------------------------------------------------------
// rapid glue

type quietTB struct {
	failed bool
	logs   []string
}

type failNow struct{}

func (q *quietTB) Helper()      {}
func (q *quietTB) Name() string { return "crssim" }
func (q *quietTB) Logf(format string, args ...any) {
	q.logs = append(q.logs, fmt.Sprintf(format, args...))
}
func (q *quietTB) Log(args ...any)                   { q.logs = append(q.logs, fmt.Sprint(args...)) }
func (q *quietTB) Skipf(format string, args ...any)  { panic(failNow{}) }
func (q *quietTB) Skip(args ...any)                  { panic(failNow{}) }
func (q *quietTB) SkipNow()                          { panic(failNow{}) }
func (q *quietTB) Errorf(format string, args ...any) { q.failed = true; q.Logf(format, args...) }
func (q *quietTB) Error(args ...any)                 { q.failed = true; q.Log(args...) }
func (q *quietTB) Fatalf(format string, args ...any) {
	q.failed = true
	q.Logf(format, args...)
	panic(failNow{})
}
func (q *quietTB) Fatal(args ...any) { q.failed = true; q.Log(args...); panic(failNow{}) }
func (q *quietTB) FailNow()          { q.failed = true; panic(failNow{}) }
func (q *quietTB) Fail()             { q.failed = true }
func (q *quietTB) Failed() bool      { return q.failed }

func rapidCheck(seed uint64, checks int, shrink time.Duration, prop func(*rapid.T)) (failed bool, logs []string) {
	_ = flag.Set("rapid.seed", fmt.Sprint(seed))
	_ = flag.Set("rapid.checks", fmt.Sprint(checks))
	_ = flag.Set("rapid.nofailfile", "true")
	_ = flag.Set("rapid.shrinktime", shrink.String())
	tb := &quietTB{}
	func() {
		defer func() {
			if r := recover(); r != nil {
				if _, ok := r.(failNow); ok {
					return
				}
				panic(r)
			}
		}()
		rapid.Check(tb, prop)
	}()
	return tb.failed, tb.logs
}

// workerMain runs the batches of one worker and writes its statistics.
func workerMain(prop *Property, build, verif, tier string, seed int64, worker, workers int, out string) {
	stats := NewStats()
	known := loadKnown(verif)
	sim := &Sim{BuildDir: build, Timeout: prop.Timeout, Stats: stats}
	defer cleanupAll()
	start := time.Now()
	checks := prop.QuickChecks
	capWall := 150 * time.Second
	if tier == "thorough" {
		checks = prop.ThoroughChecks
		capWall = 40 * time.Minute
	}
	if v := os.Getenv("CRSSIM_CHECKS"); v != "" {
		fmt.Sscan(v, &checks)
	}
	var lastFail *Scenario
	targetClass := ""
	body := func(t *rapid.T) {
		if time.Since(start) > capWall {
			stats.EarlyStop = true
			return
		}
		w, params := prop.Gen(t, tier)
		pj, err := json.Marshal(params)
		if err != nil {
			machinery("params: %v", err)
		}
		sc := &Scenario{Format: "crs-sim-scenario/1", Prop: prop.ID, Seed: seed, Worker: worker, Tier: tier, World: w, Params: pj}
		stats.curVec, stats.curPermuted = 0, false
		viol, nontrivial, key := evalGuarded(prop, sc, sim)
		stats.mu.Lock()
		stats.Scenarios++
		stats.SetHash ^= hash64(fmt.Sprintf("%x|%s", w.Hash(), pj))
		stats.Worlds[w.Hash()] = 1
		if nontrivial {
			stats.Nontrivial++
			stats.Distinct[hash64(key)] = 1
		}
		if stats.curPermuted {
			stats.PermVectors[stats.curVec^w.Hash()] = 1
		}
		if worker == 0 && len(stats.Samples) < 3 && nontrivial {
			stats.Samples = append(stats.Samples, json.RawMessage(mustJSON(map[string]any{"world": compactWorld(w), "params": compactJSON(pj)})))
		}
		stats.mu.Unlock()
		var unknown *Violation
		for i := range viol {
			v := viol[i]
			if known.isOpen(v.Sig) != nil {
				stats.mu.Lock()
				stats.Known[v.Sig]++
				stats.mu.Unlock()
				continue
			}
			// while rapid minimises, only the violation class found first counts,
			// so that shrinking cannot wander off into a different violation
			class := v.Prop + "/" + v.Oracle
			if unknown == nil && (targetClass == "" || class == targetClass) {
				unknown = &viol[i]
			}
		}
		if unknown != nil {
			targetClass = unknown.Prop + "/" + unknown.Oracle
			sc.Violation = unknown
			lastFail = sc
			t.Fatalf("%s", unknown.Sig)
		}
	}
	// one rapid.Check per batch; the batch seed is derived from VERIF_SEED and the worker index
	type batchT struct {
		cell string
		n    int
		seed uint64
	}
	var batches []batchT
	if prop.Cells != nil {
		cells := prop.Cells(tier)
		per := prop.ChecksPerCell(tier)
		for i, c := range cells {
			if i%workers == worker {
				batches = append(batches, batchT{c, per, uint64(seed)*1000003 + uint64(i)*104729 + 1})
			}
		}
		if worker == 0 {
			stats.Probes["cells_total"] = len(cells)
		}
	} else {
		remaining := checks
		for b := 0; remaining > 0; b++ {
			n := remaining
			if n > 25 {
				n = 25
			}
			remaining -= n
			batches = append(batches, batchT{"", n, uint64(seed)*1000003 + uint64(worker)*7919 + uint64(b)*104729 + 1})
		}
	}
	for _, b := range batches {
		if time.Since(start) >= capWall {
			break
		}
		currentCell = b.cell
		lastFail = nil
		targetClass = ""
		failed, logs := runBatch(b.seed, b.n, body, stats)
		if stats.Machinery != "" {
			break
		}
		if b.cell != "" {
			stats.Probes["cells_run"]++
		}
		if failed {
			if lastFail == nil {
				stats.Machinery = "rapid reported a failure without a scenario: " + strings.Join(logs, " | ")
				break
			}
			stats.Violations = append(stats.Violations, lastFail)
			if prop.Cells == nil {
				break
			}
			// an enumeration goes on with the next cell: every cell is reported
		}
	}
	if time.Since(start) >= capWall {
		stats.EarlyStop = true
	}
	stats.WallS = time.Since(start).Seconds()
	data, _ := json.Marshal(stats)
	if err := os.WriteFile(out, data, 0o644); err != nil {
		fmt.Fprintf(os.Stderr, "crssim worker: %v\n", err)
		os.Exit(2)
	}
}

func runBatch(seed uint64, n int, body func(*rapid.T), stats *Stats) (failed bool, logs []string) {
	defer func() {
		if r := recover(); r != nil {
			if me, ok := r.(MachineryError); ok {
				stats.Machinery = me.Msg
				return
			}
			panic(r)
		}
	}()
	return rapidCheck(seed, n, 20*time.Second, func(t *rapid.T) {
		defer func() {
			// a MachineryError must not be mistaken for a property failure by rapid
			if r := recover(); r != nil {
				if me, ok := r.(MachineryError); ok {
					stats.Machinery = me.Msg
					return
				}
				panic(r)
			}
		}()
		if stats.Machinery != "" {
			return
		}
		body(t)
	})
}

// compactWorld / compactJSON keep evidence samples readable: long file contents and long strings are cut (the replay
// files, not the evidence, are the complete record of a scenario).
func compactWorld(w *World) map[string]string {
	out := map[string]string{}
	for k, v := range w.Files {
		t := v.Text
		if v.B64 != "" {
			t = "(base64) " + v.B64
		}
		if len(t) > 400 {
			t = t[:400] + fmt.Sprintf("...(%d bytes)", len(t))
		}
		out[k] = t
	}
	return out
}

func compactJSON(raw []byte) any {
	var v any
	if json.Unmarshal(raw, &v) != nil {
		return string(raw)
	}
	var walk func(x any, depth int) any
	walk = func(x any, depth int) any {
		switch t := x.(type) {
		case string:
			if len(t) > 300 {
				return t[:300] + fmt.Sprintf("...(%d bytes)", len(t))
			}
			return t
		case []any:
			if len(t) > 12 {
				t = append(append([]any{}, t[:12]...), fmt.Sprintf("...(%d items)", len(t)))
			}
			for i := range t {
				t[i] = walk(t[i], depth+1)
			}
			return t
		case map[string]any:
			if _, isWorld := t["files"]; isWorld && depth > 0 {
				return "(a world; see the replay file of a failing scenario for the full form)"
			}
			for k := range t {
				t[k] = walk(t[k], depth+1)
			}
			return t
		}
		return x
	}
	return walk(v, 0)
}

func mustJSON(v any) []byte {
	b, err := json.Marshal(v)
	if err != nil {
		panic(err)
	}
	return b
}

// ---------------------------------------------------------------------------
// parent: spawn workers, aggregate, replay-verify, report

func checkMain(propID, build, verif, tier string, seed int64) int {
	prop, ok := registry[propID]
	if !ok {
		fmt.Fprintf(os.Stderr, "crssim: no check for %s\n", propID)
		return 2
	}
	start := time.Now()
	workers := runtime.NumCPU()
	if v := os.Getenv("CRSSIM_WORKERS"); v != "" {
		fmt.Sscan(v, &workers)
	}
	if workers < 1 {
		workers = 1
	}
	tmp, err := os.MkdirTemp(shmBase, "crssim-run-")
	if err != nil {
		fmt.Fprintln(os.Stderr, err)
		return 2
	}
	defer os.RemoveAll(tmp)
	self, _ := os.Executable()
	var wg sync.WaitGroup
	errs := make([]error, workers)
	stderrs := make([]string, workers)
	for i := 0; i < workers; i++ {
		wg.Add(1)
		go func(i int) {
			defer wg.Done()
			cmd := exec.Command(self, "worker", "-prop", propID, "-build", build, "-verif", verif, "-tier", tier,
				"-seed", fmt.Sprint(seed), "-worker", fmt.Sprint(i), "-workers", fmt.Sprint(workers),
				"-out", filepath.Join(tmp, fmt.Sprintf("w%d.json", i)))
			cmd.Env = append(os.Environ(), "GOMAXPROCS=2")
			outb, err := cmd.CombinedOutput()
			errs[i] = err
			stderrs[i] = string(outb)
		}(i)
	}
	wg.Wait()
	total := NewStats()
	for i := 0; i < workers; i++ {
		if errs[i] != nil {
			fmt.Fprintf(os.Stderr, "crssim: worker %d failed: %v\n%s\n", i, errs[i], stderrs[i])
			return 2
		}
		data, err := os.ReadFile(filepath.Join(tmp, fmt.Sprintf("w%d.json", i)))
		if err != nil {
			fmt.Fprintf(os.Stderr, "crssim: worker %d wrote nothing: %v\n%s\n", i, err, stderrs[i])
			return 2
		}
		ws := NewStats()
		if err := json.Unmarshal(data, ws); err != nil {
			fmt.Fprintf(os.Stderr, "crssim: worker %d: %v\n", i, err)
			return 2
		}
		total.merge(ws)
	}
	if total.Machinery != "" {
		fmt.Fprintf(os.Stderr, "crssim: machinery trouble: %s\n", total.Machinery)
		return 2
	}
	known := loadKnown(verif)
	// known findings: one line each
	sigs := make([]string, 0, len(total.Known))
	for s := range total.Known {
		sigs = append(sigs, s)
	}
	sort.Strings(sigs)
	for _, s := range sigs {
		f := known.isOpen(s)
		fmt.Printf("KNOWN-FINDING: property=%s %s %s (hit %d times)\n", propID, s, f.What, total.Known[s])
	}
	// violations: one replay file per distinct signature, verified in a fresh process first
	exit := 0
	seen := map[string]bool{}
	outDir := verif
	if v := os.Getenv("CRSSIM_OUT"); v != "" {
		outDir = v // runs against scratch copies keep their evidence and replay files out of /verif
	}
	_ = os.MkdirAll(filepath.Join(outDir, "replays"), 0o755)
	if stale, _ := filepath.Glob(filepath.Join(outDir, "replays", propID+"-*.json*")); len(stale) > 0 {
		for _, f := range stale {
			_ = os.Remove(f)
		}
	}
	nviol := 0
	unreplayed := 0
	for _, sc := range total.Violations {
		if seen[sc.Violation.Sig] {
			continue
		}
		seen[sc.Violation.Sig] = true
		name := fmt.Sprintf("%s-%d-w%d-%x.json", propID, seed, sc.Worker, hash64(sc.Violation.Sig)&0xffffff)
		path := filepath.Join(outDir, "replays", name)
		data, _ := json.MarshalIndent(sc, "", " ")
		if err := os.WriteFile(path, data, 0o644); err != nil {
			fmt.Fprintln(os.Stderr, err)
			return 2
		}
		attempts := 1
		if sc.Violation.Oracle == "repeatability" {
			attempts = 3 // nondeterminism outside the seams can be observed, not steered: give it more than one chance to show again
		}
		var out []byte
		var err error
		for a := 0; a < attempts; a++ {
			cmd := exec.Command(self, "replay", "-build", build, "-verif", verif, "-quiet", path)
			out, err = cmd.CombinedOutput()
			if err != nil && strings.Contains(string(out), "REPRODUCED "+sc.Violation.Sig) {
				break
			}
		}
		if err == nil || !strings.Contains(string(out), "REPRODUCED "+sc.Violation.Sig) {
			// not reported: only what replays is a verdict. If nothing else replays either, the run ends as machinery trouble below.
			fmt.Fprintf(os.Stderr, "crssim: violation %s did not replay from %s (not reported)\n%s\n", sc.Violation.Sig, path, out)
			_ = os.Rename(path, path+".unreplayed")
			unreplayed++
			continue
		}
		fmt.Printf("VIOLATION property=%s replay=%s\n", propID, path)
		fmt.Printf("  signature: %s\n  %s\n", sc.Violation.Sig, sc.Violation.Msg)
		total.ReplayFiles = append(total.ReplayFiles, path)
		nviol++
		exit = 1
	}
	if unreplayed > 0 && nviol == 0 {
		fmt.Fprintf(os.Stderr, "crssim: %d violation(s) seen during exploration, none of them replayed: machinery fault, no verdict\n", unreplayed)
		return 2
	}
	wall := time.Since(start).Seconds()
	writeEvidence(prop, outDir, tier, seed, total, wall, nviol, workers)
	fmt.Printf("%s %s: %d scenarios, %d child processes, %d distinct non-trivial, %d known-finding hits, %d violations, %.1fs\n",
		propID, tier, total.Scenarios, total.Steps, len(total.Distinct), sumInts(total.Known), nviol, wall)
	return exit
}

func sumInts(m map[string]int) int {
	n := 0
	for _, v := range m {
		n += v
	}
	return n
}

func writeEvidence(prop *Property, verif, tier string, seed int64, s *Stats, wall float64, nviol, workers int) {
	perHour := 0.0
	if wall > 0 {
		perHour = float64(s.Scenarios) / wall * 3600
	}
	samples := s.Samples
	if len(samples) == 0 {
		samples = []any{"no non-trivial scenario was generated"}
	}
	cov := map[string]any{
		"evaluations":                            s.Scenarios,
		"distinct_nontrivial":                    len(s.Distinct),
		"rule":                                   prop.Rule,
		"samples":                                samples,
		"traces_validated_against_impl":          s.PlainAgree,
		"child_processes":                        s.Steps,
		"uninstrumented_twin_processes":          s.PlainSteps,
		"nontrivial_scenarios":                   s.Nontrivial,
		"distinct_worlds":                        len(s.Worlds),
		"distinct_effective_permutation_vectors": len(s.PermVectors),
		"map_events_n_ge_2_per_site":             s.MapEvents,
		"map_events_permuted_per_site":           s.MapPermuted,
		"dir_listing_events":                     s.DirEvents,
		"dir_listing_events_permuted":            s.DirPermuted,
		"faults_fired":                           s.Faults,
		"simulated_network_requests":             s.NetRequests,
		"probes":                                 s.Probes,
		"exit_codes_seen":                        s.ExitCodes,
		"known_finding_hits":                     s.Known,
		"scenarios_per_hour":                     int(perHour),
		"simulated_history_steps":                s.Steps,
		"simulated_time":                         "not applicable as a duration: the program has no timers, sleeps, retries or deadlines; every child process sees one fixed simulated instant (clock seam), varied between the steps / alternatives of a scenario",
		"prng_values_per_hour":                   int(perHour),
		"workers":                                workers,
		"scenario_set_hash":                      fmt.Sprintf("%016x", s.SetHash),
		"stopped_early_by_time_cap":              s.EarlyStop,
		"exhaustive":                             false,
		"real_and_stub_components":               prop.RealStub,
		"replay_files":                           s.ReplayFiles,
	}
	ev := map[string]any{
		"property_id": prop.ID,
		"tier":        tier,
		"seed":        seed,
		"level":       prop.Level,
		"coverage":    cov,
		"assumptions": prop.Assumptions,
		"wall_s":      wall,
		"violations":  nviol,
	}
	data, _ := json.MarshalIndent(ev, "", " ")
	_ = os.MkdirAll(filepath.Join(verif, "evidence"), 0o755)
	if err := os.WriteFile(filepath.Join(verif, "evidence", prop.ID+".json"), data, 0o644); err != nil {
		fmt.Fprintln(os.Stderr, err)
	}
}

// replayMain re-materialises a scenario and evaluates it again.
func replayMain(build, verif, path string, quiet bool) int {
	data, err := os.ReadFile(path)
	if err != nil {
		fmt.Fprintln(os.Stderr, err)
		return 2
	}
	sc := &Scenario{}
	if err := json.Unmarshal(data, sc); err != nil {
		fmt.Fprintln(os.Stderr, err)
		return 2
	}
	prop, ok := registry[sc.Prop]
	if !ok {
		fmt.Fprintf(os.Stderr, "crssim: no check for %s\n", sc.Prop)
		return 2
	}
	stats := NewStats()
	sim := &Sim{BuildDir: build, Timeout: prop.Timeout, Stats: stats}
	defer cleanupAll()
	var viol []Violation
	func() {
		defer func() {
			if r := recover(); r != nil {
				if me, ok := r.(MachineryError); ok {
					fmt.Fprintf(os.Stderr, "crssim: machinery trouble: %s\n", me.Msg)
					os.Exit(2)
				}
				panic(r)
			}
		}()
		viol, _, _ = evalGuarded(prop, sc, sim)
	}()
	known := loadKnown(verif)
	exit := 0
	for _, v := range viol {
		tag := ""
		if known.isOpen(v.Sig) != nil {
			tag = " (known finding)"
		} else {
			exit = 1
		}
		fmt.Printf("REPRODUCED %s%s\n", v.Sig, tag)
		if !quiet {
			fmt.Printf("  %s\n", v.Msg)
			if v.Detail != "" {
				fmt.Printf("%s\n", indent(v.Detail, "    "))
			}
		}
	}
	if exit == 1 {
		fmt.Printf("VIOLATION property=%s replay=%s\n", sc.Prop, path)
	} else if len(viol) == 0 {
		fmt.Printf("replay: no violation for %s\n", sc.Prop)
	}
	return exit
}

func indent(s, pre string) string {
	lines := strings.Split(strings.TrimRight(s, "\n"), "\n")
	for i := range lines {
		lines[i] = pre + lines[i]
	}
	return strings.Join(lines, "\n")
}

func init() {
	testing.Init()
	_ = flag.CommandLine.Parse([]string{})
}
