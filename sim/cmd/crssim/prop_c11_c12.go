package main

import (
	"bytes"
	"encoding/json"
	"fmt"
	"os"
	"regexp"
	"strings"
	"time"

	"pgregory.net/rapid"

	"crssim/simrt"
)

// C11 - update rewrites only the addressed rule's @rx operand (byte-level frame condition on the whole disk).
// C12 - update and compare agree (histories update->compare, update->update, edit-one-byte->compare).

type RulesTarget struct {
	Arg   string `json:"arg"`   // RULE_ID argument, e.g. 942100-chain2
	Rule  int    `json:"rule"`  // index into the rules of the file
	Link  int    `json:"link"`  // chain offset
	Start int    `json:"start"` // operand span in the initial rules file
	End   int    `json:"end"`
	Links int    `json:"links"` // number of links of the rule (1 = no chain)
}

type RulesParams struct {
	RulesPath string        `json:"rules_path"`
	Targets   []RulesTarget `json:"targets"`
	Plans     []simrt.Plan  `json:"plans"`
	Features  []string      `json:"features"`
	// C12: which byte of the stored operand to flip (relative, modulo its length) and the replacement
	FlipAt   int    `json:"flip_at"`
	FlipWith string `json:"flip_with"`
	EditMode string `json:"edit_mode"` // flip | drop-last | append | empty
	// LogLevel: value of the global -l flag for the update under test ("" = flag absent)
	LogLevel string `json:"log_level,omitempty"`
	// SubdirArg: a rule whose data file lives in a sub directory of regex-assembly (reachable with --all only)
	SubdirArg string `json:"subdir_arg,omitempty"`
}

var storedOperandPool = []string{"old", "ARGS", `\\d+`, "S", `x\"!@rx y`, `foo\"@rx bar`, `a\" \x5cb`, `x$`, `(?i)^abc`, `\x5c\"`, `a b  c`, `[\"'` + "`" + `]+`, `!@rx `, ``}

func genRules(t *rapid.T, tier string) (*World, any) {
	w := NewWorld()
	p := &RulesParams{RulesPath: "crs/rules/REQUEST-942-APPLICATION-ATTACK-SQLI.conf"}
	feat := map[string]bool{}
	opts := RulesOpts{}
	if chance(t, 20, "crlf") {
		opts.CRLF = true
		feat["crlf"] = true
	}
	if !opts.CRLF && chance(t, 10, "mixed-eol") {
		for i := 0; i < 7; i++ {
			v := 0
			if chance(t, 30, "mixed-eol-here") {
				v = 1
			}
			opts.MixedEOL = append(opts.MixedEOL, v)
		}
		feat["mixed-line-ends"] = true
	}
	if chance(t, 25, "nofinal") {
		opts.NoFinalNL = true
		feat["no-final-newline"] = true
	}
	if chance(t, 40, "variety") {
		for i := 0; i < 24; i++ {
			opts.Vars = append(opts.Vars, drawInt(t, 0, len(ruleVars)-1, "var"))
			tr := 0
			if chance(t, 25, "trailing") {
				tr = drawInt(t, 1, 3, "ntrail")
			}
			opts.Trailing = append(opts.Trailing, tr)
		}
		for i := 0; i < 6; i++ {
			opts.Between = append(opts.Between, drawInt(t, 0, 2, "between"))
		}
		if chance(t, 30, "inchain") {
			for i := 0; i < 24; i++ {
				v := 0
				if chance(t, 30, "inchain-here") {
					v = 1
				}
				opts.InChain = append(opts.InChain, v)
			}
			feat["comment-inside-chain"] = true
		}
		opts.Tabs = chance(t, 20, "tabs")
		if chance(t, 30, "compact") {
			for i := 0; i < 5; i++ {
				opts.Compact = append(opts.Compact, drawInt(t, 0, 1, "compact-here"))
			}
			feat["two-line-rules"] = true
		}
		for i := 0; i < 14; i++ {
			opts.IDNotFirst = append(opts.IDNotFirst, drawInt(t, 0, 1, "idnotfirst"))
		}
		feat["line-variety"] = true
	}
	rf := &RuleFile{Path: p.RulesPath}
	maxRules := 5
	if tier == "thorough" {
		maxRules = 12
	}
	nr := drawInt(t, 1, maxRules, "nrules")
	ids := []string{"942100", "942101", "942110", "942120", "942200", "942210", "942220", "942230", "942240", "942250", "942260", "942270", "942280"}
	idComments := chance(t, 12, "idcomments")
	longNeighbour := chance(t, 8, "longid")
	type cand struct{ rule, link int }
	var cands []cand
	for i := 0; i < nr; i++ {
		spec := RuleSpec{ID: ids[i]}
		chain := 0
		if chance(t, 45, "chain") {
			chain = drawInt(t, 1, 3, "chainlen")
			feat["chain"] = true
		}
		for k := 0; k <= chain; k++ {
			op := "@rx"
			switch drawInt(t, 0, 9, "op") {
			case 0, 1:
				op = "!@rx"
				feat["negated"] = true
			case 2:
				op = pick(t, []string{"@pm", "@streq", "@contains"}, "otherop")
				feat["other-operator"] = true
			}
			spec.Ops = append(spec.Ops, op)
			spec.Regex = append(spec.Regex, pick(t, storedOperandPool, "stored"))
			if op == "@rx" || op == "!@rx" {
				cands = append(cands, cand{i, k})
			}
		}
		rf.Rules = append(rf.Rules, spec)
	}
	if longNeighbour && nr >= 2 {
		// a neighbour whose id starts with another rule's id
		rf.Rules[0].ID = rf.Rules[nr-1].ID + "1"
		feat["id-is-prefix-of-neighbour"] = true
	}
	commentFor := func(i int) string {
		c := "#\n# -=[ rule " + rf.Rules[i].ID + " ]=-\n#"
		if idComments && i+1 < nr && chance(t, 60, "idc") {
			c += "\n# see also id:" + rf.Rules[i+1].ID + " below"
			feat["comment-mentions-id"] = true
		}
		if chance(t, 20, "rxcomment") {
			c += "\n# SecRule ARGS \"@rx commented out\" \\"
			feat["commented-secrule"] = true
		}
		return c
	}
	header := "# ------------------------------------------------------------------------\n# OWASP CRS ver.4.0.0\n# Copyright (c) 2021-2024 CRS project. All rights reserved.\n# ------------------------------------------------------------------------\n\n"
	renderRuleFile(rf, opts, header, commentFor)
	w.Put(p.RulesPath, rf.Content)
	// other rules files that must stay untouched
	w.Put("crs/rules/REQUEST-941-APPLICATION-ATTACK-XSS.conf", "SecRule ARGS \"@rx xss\" \\\n    \"id:941100,\\\n    phase:2\"\n")
	w.Put("crs/rules/RESPONSE-950-DATA-LEAKAGES.conf", "# nothing\n")
	w.Put("crs/regex-assembly/include/inc1.ra", "abs\nbes\ncx\n")
	w.Put("crs/regex-assembly/exclude/exc1.ra", "bes\n")
	// assembly files for 1-3 targets
	if len(cands) == 0 {
		rf.Rules[0].Ops[0] = "@rx"
		renderRuleFile(rf, opts, header, commentFor)
		w.Put(p.RulesPath, rf.Content)
		cands = append(cands, cand{0, 0})
	}
	nt := drawInt(t, 1, 3, "ntargets")
	used := map[cand]bool{}
	for i := 0; i < nt; i++ {
		c := cands[drawInt(t, 0, len(cands)-1, "cand")]
		if used[c] {
			continue
		}
		used[c] = true
		id := rf.Rules[c.rule].ID
		if len(id) != 6 {
			continue // not addressable with the argument grammar
		}
		arg := id
		if c.link > 0 {
			arg = fmt.Sprintf("%s-chain%d", id, c.link)
		}
		prog := drawProgram(t, ProgOpts{Spicy: true, Flags: true, PrefixSufx: chance(t, 30, "ps"), Blocks: chance(t, 30, "blk"), Includes: []string{"inc1"}, Excludes: []string{"exc1"}, Pairs: true, MaxLines: 6}, "prog")
		content := joinLines(prog.Lines)
		if last := lastOf(prog.Lines); !strings.HasPrefix(strings.TrimSpace(last), "##!") && last != "" && chance(t, 10, "last-trailing") {
			// white space at the end of the last entry is part of the expression, for update as for generate
			content = strings.TrimSuffix(content, "\n") + pick(t, []string{" ", "\t", "  "}, "last-trailing-v") + pick(t, []string{"\n", ""}, "last-trailing-nl")
			feat["last-entry-ends-in-blank"] = true
		}
		if chance(t, 6, "leading-blank-expression") {
			// every alternative starts with a blank: so does the expression
			content = "[ ]get" + pick(t, []string{"", "[0-9]"}, "lb1") + "\n[ ]post\n"
			feat["expression-starts-with-blank"] = true
		}
		if chance(t, 6, "id-in-expression") {
			// the expression itself contains what looks like an id action
			content = "sess;id:7[0-9]+\nplain\n"
			feat["expression-contains-id-action-text"] = true
		}
		if chance(t, 5, "bom") {
			content = "\ufeff" + content // a byte order mark means the same to generate, update and compare
			feat["byte-order-mark"] = true
		}
		w.Put("crs/regex-assembly/"+arg+".ra", content)
		sp := rf.Spans[c.rule][c.link]
		p.Targets = append(p.Targets, RulesTarget{Arg: arg, Rule: c.rule, Link: c.link, Start: sp[0], End: sp[1], Links: len(rf.Rules[c.rule].Ops)})
	}
	if len(p.Targets) == 0 {
		// fall back to the first addressable candidate
		for _, c := range cands {
			id := rf.Rules[c.rule].ID
			if len(id) != 6 {
				continue
			}
			arg := id
			if c.link > 0 {
				arg = fmt.Sprintf("%s-chain%d", id, c.link)
			}
			w.Put("crs/regex-assembly/"+arg+".ra", "fallback[a-c]\"x\n")
			sp := rf.Spans[c.rule][c.link]
			p.Targets = append(p.Targets, RulesTarget{Arg: arg, Rule: c.rule, Link: c.link, Start: sp[0], End: sp[1], Links: len(rf.Rules[c.rule].Ops)})
			break
		}
	}
	if len(p.Targets) >= 2 && chance(t, 15, "same-program") {
		// two rules of one file whose data files say the same: each operand line is still updated and compared on its own
		a, b := p.Targets[0].Arg, p.Targets[1].Arg
		w.Files["crs/regex-assembly/"+b+".ra"] = w.Files["crs/regex-assembly/"+a+".ra"]
		feat["two-targets-same-expression"] = true
	}
	if len(p.Targets) >= 2 && chance(t, 10, "stash-pair") {
		// one file stores an expression, a later one (in walk order) only reads it: invalid on its own, and no --all run may make it valid
		a, b := p.Targets[0].Arg, p.Targets[1].Arg
		if b < a {
			a, b = b, a
		}
		w.Put("crs/regex-assembly/"+a+".ra", w.Files["crs/regex-assembly/"+a+".ra"].Text+"##!> assemble\n  left\n  ##!=< shared\n  right\n##!<\n")
		w.Put("crs/regex-assembly/"+b+".ra", w.Files["crs/regex-assembly/"+b+".ra"].Text+"##!> assemble\n  mid\n  ##!=> shared\n  end\n##!<\n")
		feat["stash-writer-reader"] = true
	}
	for i := 0; i < 3; i++ {
		p.Plans = append(p.Plans, drawPlan(t, fmt.Sprintf("plan%d", i), true))
	}
	if chance(t, 20, "loglevel") {
		p.LogLevel = pick(t, []string{"debug", "trace", "warn"}, "loglevel-v")
	}
	if chance(t, 10, "subdir-data-file") {
		for _, c := range cands {
			id := rf.Rules[c.rule].ID
			if used[c] || len(id) != 6 {
				continue
			}
			arg := id
			if c.link > 0 {
				arg = fmt.Sprintf("%s-chain%d", id, c.link)
			}
			if _, taken := w.Files["crs/regex-assembly/"+arg+".ra"]; taken {
				continue // one data file per rule line
			}
			// data files may be grouped in sub directories; the --all walks find them there
			w.Put("crs/regex-assembly/grouped/"+arg+".ra", "sub[a-c]dir\nfile\n")
			p.SubdirArg = arg
			feat["data-file-in-sub-directory"] = true
			break
		}
	}
	p.FlipAt = drawInt(t, 0, 1000, "flipat")
	p.FlipWith = pick(t, []string{"#", "Z", "~", "0"}, "flipwith")
	p.EditMode = pick(t, []string{"flip", "flip", "drop-last", "append", "empty", "case"}, "editmode")
	if chance(t, 8, "origcopy") {
		// a left-over copy next to the rules file: update and compare must agree on whether the rule can be addressed at all
		w.Put(p.RulesPath+pick(t, []string{".orig", ".bak", "~"}, "origext"), rf.Content)
		feat["leftover-copy-of-rules-file"] = true
		p.Features = sortedKeys(feat)
	}
	p.Features = sortedKeys(feat)
	return w, p
}

func evalC11(sc *Scenario, sim *Sim) ([]Violation, bool, string) {
	var p RulesParams
	if err := json.Unmarshal(sc.Params, &p); err != nil {
		machinery("params: %v", err)
	}
	var viol []Violation
	nontrivial := false
	sb := sim.NewSandbox(sc.World)
	defer sb.Close()
	orig := sc.World.Files[p.RulesPath].Bytes()
	for ti, tg := range p.Targets {
		sb.Restore(sc.World)
		g := sb.Run(Step{Argv: []string{"regex", "generate", tg.Arg}, Cwd: "crs", Plan: p.Plans[0]})
		if g.Exit != 0 {
			continue // the program does not compile; nothing to write
		}
		before := sb.Snap()
		uargv := []string{"regex", "update", tg.Arg}
		if p.LogLevel != "" {
			uargv = append([]string{"-l", p.LogLevel}, uargv...)
		}
		u := sb.Run(Step{Argv: uargv, Cwd: "crs", Plan: p.Plans[1]})
		after := sb.Snap()
		got := sb.MustRead(p.RulesPath)
		want := append(append(append([]byte{}, orig[:tg.Start]...), g.Stdout...), orig[tg.End:]...)
		nontrivial = true
		add := func(what, msg, detail string) {
			viol = append(viol, Violation{Prop: "C11", Oracle: "frame-condition", Sig: "C11/frame/" + what, Msg: msg,
				Detail: detail + fmt.Sprintf("\ntarget %d: %s (rule index %d, chain link %d)\nrules file before:\n%q", ti, tg.Arg, tg.Rule, tg.Link, clip2(orig, 2500))})
		}
		ambiguous := false
		for _, f := range p.Features {
			if f == "leftover-copy-of-rules-file" {
				ambiguous = true // two files match the rule's prefix: refusing is what C16 demands
			}
		}
		if u.Exit != 0 && ambiguous && bytes.Equal(got, orig) {
			continue
		}
		if u.Exit != 0 {
			if !bytes.Equal(got, orig) {
				add("failed-but-wrote", fmt.Sprintf("update failed (exit %d) and changed the rules file", u.Exit), string(u.Stderr))
			} else {
				add("cannot-update", fmt.Sprintf("update of an existing rule with an @rx operator failed (exit %d)", u.Exit), clip(u.Stderr))
			}
			continue
		}
		if !bytes.Equal(got, want) {
			what := "other-bytes"
			switch {
			case bytes.Equal(bytes.ReplaceAll(got, []byte("\r"), nil), bytes.ReplaceAll(want, []byte("\r"), nil)):
				what = "line-ending"
			case bytes.Equal(got, orig):
				what = "nothing-written"
			default:
				if len(got) >= tg.Start && bytes.Equal(got[:tg.Start], orig[:tg.Start]) {
					what = "after-target"
				} else {
					what = "before-target"
				}
			}
			add(what, "after update the rules file is not the original with exactly the target operand replaced by generate's output",
				fmt.Sprintf("generated: %q\ngot:\n%q\nexpected:\n%q", clip(g.Stdout), clip2(got, 2500), clip2(want, 2500)))
			continue
		}
		// every other file untouched
		var others []string
		for _, d := range before.Diff(after, false) {
			if d != "~"+p.RulesPath {
				others = append(others, d)
			}
		}
		if len(others) > 0 {
			add("other-files", "update changed files other than the rules file: "+strings.Join(others, " "), "")
		}
		// a link one beyond the rule's chain addresses nothing: whatever the exit status (C16), no byte of the rules file may change
		if tg.Links > 0 && tg.Link == tg.Links-1 {
			sb.Restore(sc.World)
			beyond := fmt.Sprintf("%s-chain%d", strings.SplitN(tg.Arg, "-", 2)[0], tg.Links)
			if _, exists := sc.World.Files["crs/regex-assembly/"+beyond+".ra"]; !exists {
				sb.Write("crs/regex-assembly/"+beyond+".ra", []byte("beyond[0-9]\n"))
				ub := sb.Run(Step{Argv: []string{"regex", "update", beyond}, Cwd: "crs", Plan: p.Plans[2]})
				if got2 := sb.MustRead(p.RulesPath); !bytes.Equal(got2, orig) {
					add("nonexistent-link-wrote", fmt.Sprintf("`update %s` addresses a chain link the rule does not have (exit %d) but the rules file changed", beyond, ub.Exit),
						fmt.Sprintf("got:\n%q", clip2(got2, 2500)))
				}
			}
		}
	}
	return viol, nontrivial, fmt.Sprintf("%x", sc.World.Hash())
}

func clip2(b []byte, n int) string {
	if len(b) > n {
		return string(b[:n]) + "..."
	}
	return string(b)
}

func evalC12(sc *Scenario, sim *Sim) ([]Violation, bool, string) {
	var p RulesParams
	if err := json.Unmarshal(sc.Params, &p); err != nil {
		machinery("params: %v", err)
	}
	var viol []Violation
	nontrivial := false
	sb := sim.NewSandbox(sc.World)
	defer sb.Close()
	orig := sc.World.Files[p.RulesPath].Bytes()
	for ti, tg := range p.Targets {
		sb.Restore(sc.World)
		// the --all variants need every other rule to be up to date: bring all rules up to date first; where that is
		// impossible (another program does not compile) leave only this target's assembly file in place
		allCurrent := false
		if ua := sb.Run(Step{Argv: []string{"regex", "update", "--all"}, Cwd: "crs", Plan: p.Plans[0]}); ua.Exit != 0 {
			sb.Restore(sc.World)
			for path := range sc.World.Files {
				if strings.HasPrefix(path, "crs/regex-assembly/") && strings.HasSuffix(path, ".ra") && !strings.Contains(path, "/include/") && path != "crs/regex-assembly/"+tg.Arg+".ra" {
					_ = removeFile(sb, path)
				}
			}
			sim.Stats.probe("single-file-mode")
		} else {
			sim.Stats.probe("all-rules-current-mode")
			allCurrent = true
		}
		add := func(oracle, what, msg, detail string) {
			viol = append(viol, Violation{Prop: "C12", Oracle: oracle, Sig: "C12/" + oracle + "/" + what, Msg: msg,
				Detail: detail + fmt.Sprintf("\ntarget %d: %s\nassembly file:\n%s\nrules file before:\n%q", ti, tg.Arg, clip(sc.World.Files["crs/regex-assembly/"+tg.Arg+".ra"].Bytes()), clip2(orig, 2000))})
		}
		g := sb.Run(Step{Argv: []string{"regex", "generate", tg.Arg}, Cwd: "crs", Plan: p.Plans[0]})
		if g.Exit != 0 {
			if allCurrent {
				// `update --all` has just reported success for every file, this one included: then generate must know its regex
				add("stored-equals-generated", "update-all-ok-but-generate-fails", fmt.Sprintf("`update --all` exited 0 but `generate %s` fails (exit %d): what was stored for that rule is nothing generate can produce", tg.Arg, g.Exit), clip(g.Stderr))
			}
			continue
		}
		u1 := sb.Run(Step{Argv: []string{"regex", "update", tg.Arg}, Cwd: "crs", Plan: p.Plans[1]})
		if u1.Exit != 0 {
			continue // C11 / C16 judge failing updates
		}
		nontrivial = true
		after1 := sb.MustRead(p.RulesPath)
		// operands before the target may have changed length: the target's operand starts at the same column of the same line
		tg.Start = relocate(orig, after1, tg.Start)
		// stored operand = generate's output (span located by the structure, not by the implementation's pattern)
		if len(after1) >= tg.Start+len(g.Stdout) && !bytes.Equal(after1[tg.Start:tg.Start+len(g.Stdout)], g.Stdout) {
			add("stored-equals-generated", "stored", "the operand stored by update is not generate's output", fmt.Sprintf("generated: %q\nrules file after: %q", clip(g.Stdout), clip2(after1, 2000)))
		}
		c := sb.Run(Step{Argv: []string{"regex", "compare", tg.Arg}, Cwd: "crs", Plan: p.Plans[2]})
		if c.Exit != 0 || !strings.Contains(string(c.Stdout), "has not changed") {
			add("update-then-compare", "reports-change", fmt.Sprintf("compare right after a successful update does not report the rule as unchanged (exit %d)", c.Exit),
				fmt.Sprintf("generated: %q\ncompare stdout: %q\nstderr: %s", clip(g.Stdout), clip(c.Stdout), clip(c.Stderr)))
		}
		cg := sb.Run(Step{Argv: []string{"-o", "github", "regex", "compare", "--all"}, Cwd: "crs", Plan: p.Plans[0]})
		if cg.Exit != 0 {
			add("update-then-compare", "github-all-fails", fmt.Sprintf("`-o github compare --all` fails (exit %d) right after a successful update", cg.Exit), clip(cg.Stdout)+clip(cg.Stderr))
		}
		u2 := sb.Run(Step{Argv: []string{"regex", "update", tg.Arg}, Cwd: "crs", Plan: p.Plans[2]})
		after2 := sb.MustRead(p.RulesPath)
		if u2.Exit != 0 || !bytes.Equal(after1, after2) {
			add("update-twice", "not-a-noop", fmt.Sprintf("the second update is not a byte no-op (exit %d)", u2.Exit),
				fmt.Sprintf("after 1st: %q\nafter 2nd: %q", clip2(after1, 2000), clip2(after2, 2000)))
		}
		// edit one byte inside the stored operand -> compare must report a change
		if len(g.Stdout) > 0 && len(after1) >= tg.Start+len(g.Stdout) {
			pos := tg.Start + p.FlipAt%len(g.Stdout)
			edited := append([]byte{}, after1...)
			repl := p.FlipWith[0]
			if edited[pos] == repl {
				repl = '%'
			}
			end := tg.Start + len(g.Stdout)
			switch p.EditMode {
			case "drop-last":
				// the stored operand becomes a proper prefix of the generated regex
				if len(g.Stdout) < 2 || edited[end-1] == '"' || edited[end-1] == '\\' || edited[end-2] == '\\' {
					continue
				}
				edited = append(edited[:end-1:end-1], after1[end:]...)
				pos = end - 1
			case "append":
				if edited[end-1] == '\\' {
					continue
				}
				edited = append(append(append([]byte{}, after1[:end]...), repl), after1[end:]...)
				pos = end
			case "empty":
				edited = append(append([]byte{}, after1[:tg.Start]...), after1[end:]...)
				pos = tg.Start
			case "case":
				// change the case of one letter (a stored \x5C instead of \x5c is a different operand)
				found := false
				// prefer a hex digit of an escape such as \x5c: escapes are where a "harmless" normalisation would hide a difference
				if m := hexEscapeLetter.FindIndex(edited[tg.Start:end]); m != nil && p.FlipAt%2 == 0 {
					q := tg.Start + m[1] - 1
					if edited[q] >= 'a' && edited[q] <= 'f' {
						edited[q] -= 32
						pos, found = q, true
					} else if hexEscapeLetter2.Match(edited[tg.Start+m[0] : tg.Start+m[1]]) {
						q = tg.Start + m[0] + 2
						edited[q] -= 32
						pos, found = q, true
					}
				}
				for k := 0; k < len(g.Stdout) && !found; k++ {
					q := tg.Start + (p.FlipAt+k)%len(g.Stdout)
					c := edited[q]
					if c >= 'a' && c <= 'z' {
						edited[q] = c - 32
						pos, found = q, true
						break
					}
					if c >= 'A' && c <= 'Z' {
						edited[q] = c + 32
						pos, found = q, true
						break
					}
				}
				if !found {
					continue
				}
			default:
				// keep the line structure intact: never touch or create quote / backslash / newline bytes
				if edited[pos] == '"' || edited[pos] == '\\' || edited[pos] == '\n' || edited[pos] == '\r' {
					continue
				}
				edited[pos] = repl
			}
			sb.Write(p.RulesPath, edited)
			c1 := sb.Run(Step{Argv: []string{"regex", "compare", tg.Arg}, Cwd: "crs", Plan: p.Plans[1]})
			if c1.Exit == 0 || !strings.Contains(string(c1.Stdout), "has changed!") {
				add("edit-then-compare", "single-text:"+p.EditMode, fmt.Sprintf("the stored operand was edited (%s) but compare (text, single rule) exits %d", p.EditMode, c1.Exit),
					fmt.Sprintf("edit at byte %d (%q)\nstdout: %q", pos-tg.Start, string(repl), clip(c1.Stdout)))
			}
			c2 := sb.Run(Step{Argv: []string{"-o", "github", "regex", "compare", tg.Arg}, Cwd: "crs", Plan: p.Plans[2]})
			if c2.Exit == 0 {
				add("edit-then-compare", "single-github", "one byte of the stored operand was edited but `-o github compare RULE` exits 0", clip(c2.Stdout))
			}
			c3 := sb.Run(Step{Argv: []string{"-o", "github", "regex", "compare", "--all"}, Cwd: "crs", Plan: p.Plans[0]})
			if c3.Exit == 0 {
				add("edit-then-compare", "all-github", "one byte of the stored operand was edited but `-o github compare --all` exits 0", clip(c3.Stdout))
			}
			c4 := sb.Run(Step{Argv: []string{"regex", "compare", "--all"}, Cwd: "crs", Plan: p.Plans[1]})
			if !strings.Contains(string(c4.Stdout), "has changed!") {
				add("edit-then-compare", "all-text", "one byte of the stored operand was edited but `compare --all` does not print \"has changed!\"", clip(c4.Stdout))
			}
		}
	}
	if p.SubdirArg != "" {
		// a data file in a sub directory: what `update --all` says it brought up to date, `compare --all` finds up to date
		sb.Restore(sc.World)
		if ua := sb.Run(Step{Argv: []string{"regex", "update", "--all"}, Cwd: "crs", Plan: p.Plans[0]}); ua.Exit == 0 {
			nontrivial = true
			cg := sb.Run(Step{Argv: []string{"-o", "github", "regex", "compare", "--all"}, Cwd: "crs", Plan: p.Plans[1]})
			ct := sb.Run(Step{Argv: []string{"regex", "compare", "--all"}, Cwd: "crs", Plan: p.Plans[2]})
			if cg.Exit != 0 || strings.Contains(string(ct.Stdout), "has changed!") {
				viol = append(viol, Violation{Prop: "C12", Oracle: "update-then-compare", Sig: "C12/update-then-compare/all-after-all/sub-directory",
					Msg:    fmt.Sprintf("`update --all` exited 0, yet `compare --all` right after it reports a change (github exit %d); the tree has a data file in a sub directory of regex-assembly (%s)", cg.Exit, p.SubdirArg),
					Detail: clip(ct.Stdout) + clip(cg.Stdout)})
			}
		}
	}
	return viol, nontrivial, fmt.Sprintf("%x|%d", sc.World.Hash(), p.FlipAt)
}

// relocate maps an offset of the original file to the same line and column of the current file (update never adds or removes lines).
func relocate(orig, cur []byte, off int) int {
	line := bytes.Count(orig[:off], []byte("\n"))
	col := off - (bytes.LastIndexByte(orig[:off], '\n') + 1)
	pos := 0
	for i := 0; i < line; i++ {
		j := bytes.IndexByte(cur[pos:], '\n')
		if j < 0 {
			return off
		}
		pos += j + 1
	}
	return pos + col
}

var hexEscapeLetter = regexp.MustCompile(`\\x[0-9a-f]{2}`)
var hexEscapeLetter2 = regexp.MustCompile(`^\\x[a-f]`)

func removeFile(sb *Sandbox, rel string) error {
	return os.Remove(sb.Path(rel))
}

func init() {
	rule := "scenario = rules file in CRS layout rendered from a structure that knows the byte span of every operand (1-5 rules, chains of length 0-3, @rx / !@rx / other operators, comments incl. commented-out SecRule lines, (12%) comments that mention `id:NNNNNN`, (8%) a neighbour whose id starts with another rule's id, CRLF, missing final newline; stored operands containing \\\"@rx , \\\" \\x5c, $, blanks, back-ticks) + 1-3 assembly files (15%: two of them with the same program) whose programs contain quotes, backslashes, blanks, `@rx ` and `\" \\` text, flags, prefixes, blocks and includes; each command under its own schedule (map iteration + directory order). "
	register(&Property{
		ID: "C11", Level: "exploration",
		Rule: rule + "History: generate T; update T (20%: with -l debug / trace / warn); for the last link of a rule also update of the link one beyond it, which must not change a byte. Oracle: the rules file equals the original with exactly the target's span replaced by generate's stdout (byte for byte: other rules, comments, line endings, final newline or its absence) and every other file's snapshot is unchanged. Non-trivial = the program compiles and update ran; distinct = distinct worlds.",
		Gen:  genRules, Eval: evalC11,
		QuickChecks: 1500, ThoroughChecks: 25000, Timeout: 20 * time.Second,
		Assumptions: []string{"rules files follow the CRS layout the property names: the id action is on the line after the SecRule line and the operand ends in `\" \\` at the end of the line"},
		RealStub:    realStubDefault,
	})
	register(&Property{
		ID: "C12", Level: "exploration",
		Rule: rule + "Histories: (10%: a further rule has its data file in a sub directory of regex-assembly; update --all -> compare --all must agree on it) update T -> compare T (must print 'has not changed', exit 0; `-o github compare --all` exit 0); update T -> update T (byte no-op); stored span = generate's stdout; update T -> edit the stored span (flip one byte, drop the last byte, append a byte, empty it, change the case of one letter) -> compare (text single rule: exit != 0 and 'has changed!'; -o github single and --all: exit != 0; text --all prints 'has changed!'). Non-trivial = update succeeded; distinct = distinct (world, flipped byte).",
		Gen:  genRules, Eval: evalC12,
		QuickChecks: 300, ThoroughChecks: 6000, Timeout: 20 * time.Second,
		Assumptions: []string{"the edited byte is never a quote, backslash or line terminator, so the line keeps the CRS layout", "for the --all variants only the target's assembly file is left in place"},
		RealStub:    realStubDefault,
	})
}
