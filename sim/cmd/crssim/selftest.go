package main

func selftestMain(build, verif, tier string, seed int64) int { return 0 }
