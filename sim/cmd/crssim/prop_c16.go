package main

import (
	"bytes"
	"encoding/json"
	"fmt"
	"sort"
	"strings"
	"time"

	"pgregory.net/rapid"

	"crssim/simrt"
)

// C16 - failures are loud. Fault enumeration: {fault class} x {position} x {command},
// each cell instantiated on seeded valid worlds, with a fault-free control run first.

type C16Params struct {
	Cell     string     `json:"cell"`
	Class    string     `json:"class"`
	Position string     `json:"position"`
	Cmd      string     `json:"cmd"`
	Argv     []string   `json:"argv"`
	Control  *World     `json:"control_world"` // the same world without the fault
	CtlArgv  []string   `json:"control_argv"`
	Target   string     `json:"target"`      // world path of the failing item's target ("" = none)
	TgtLine  int        `json:"target_line"` // update: line index of the failing item's SecRule line in the rules file
	Mode     string     `json:"mode"`        // loud | loud-or-complete | write-fault
	Plan     simrt.Plan `json:"plan"`
	FaultyRa string     `json:"faulty_file,omitempty"`
	// Pre: commands run first on both worlds (a history); Edit: then applied to the faulted world only
	Pre  [][]string `json:"pre,omitempty"`
	Edit *c16Edit   `json:"edit,omitempty"`
}

type c16Edit struct {
	Path string `json:"path"`
	Old  string `json:"old"`
	New  string `json:"new"`
}

var c16LineFaults = map[string]string{
	"missing-include":                    "##!> include nosuchfile",
	"missing-exclude":                    "##!> include-except inc1 nosuchexclude",
	"missing-include-absolute-path":      "##!> include <<W>>/crs/regex-assembly/include/nosuchfile",
	"missing-exclude-absolute-path":      "##!> include-except inc1 <<W>>/crs/regex-assembly/exclude/nosuchexclude.ra",
	"missing-exclude-after-all-excluded": "##!> include-except onlyone ex-all nosuchexclude",
	"include-without-name":               "##!> include",
	"include-except-without-name":        "##!> include-except",
	"include-with-two-names":             "##!> include inc1 inc2",
	"define-without-value":               "##!> define lonely",
	"unparsable-entry":                   "a(b[",
	"unparsable-prefix":                  "##!^ [z-a]",
	"unparsable-suffix":                  "##!$ x{2,1}",
	"unknown-processor":                  "##!> frobnicate\nfoo\n##!<",
	"unknown-cmdline":                    "##!> cmdline vms\nfoo\n##!<",
	"missing-block-end":                  "##!> assemble\nfoo",
	"stray-block-end":                    "##!<",
	"unknown-stored":                     "##!> assemble\nfoo\n##!=> nosuchname\nbar\n##!<",
	"missing-identifier":                 "##!> assemble\nfoo\n##!=<\nbar\n##!<",
	"unsupported-flag":                   "##!+ x",
	"odd-replacements":                   "##!> include inc1 -- a b c",
	"flags-in-include":                   "##!> include withflags",
}

var c16TreeFaults = []string{"rule-id-absent", "chain-offset-absent", "rules-file-absent", "two-rules-files", "operator-not-rx"}
var c16ArgFaults = []string{"malformed-rule-id", "target-file-absent"}

func c16Cells(tier string) []string {
	var cells []string
	lineClasses := sortedKeys(c16LineFaults)
	for _, cl := range lineClasses {
		positions := []string{"top", "block", "include"}
		if cl == "unsupported-flag" || cl == "flags-in-include" || cl == "unparsable-prefix" || cl == "unparsable-suffix" {
			positions = []string{"top"}
		}
		if cl == "missing-block-end" || cl == "stray-block-end" {
			positions = []string{"top", "block"}
		}
		for _, pos := range positions {
			for _, cmd := range []string{"generate", "generate-stdin", "update", "compare", "compare-gh"} {
				cells = append(cells, cl+"|"+pos+"|"+cmd)
			}
			for _, which := range []string{"first", "middle", "last"} {
				for _, cmd := range []string{"update-all", "compare-all", "compare-all-gh"} {
					cells = append(cells, cl+"|"+pos+"+"+which+"|"+cmd)
				}
			}
		}
	}
	// a stored name that only ANOTHER file of the same --all run stores (process-wide state must not make it resolvable)
	for _, which := range []string{"middle", "last"} {
		for _, cmd := range []string{"update-all", "compare-all", "compare-all-gh"} {
			cells = append(cells, "unknown-stored-elsewhere|top+"+which+"|"+cmd)
		}
	}
	for _, cmd := range []string{"generate", "update", "compare"} {
		cells = append(cells, "unknown-stored-elsewhere|top|"+cmd)
	}
	for _, cl := range []string{"unsupported-flag", "stray-block-end"} {
		for _, cmd := range []string{"format", "format-all"} {
			cells = append(cells, cl+"|top|"+cmd)
		}
	}
	for _, cl := range c16TreeFaults {
		for _, cmd := range []string{"update", "compare", "compare-gh"} {
			cells = append(cells, cl+"|tree|"+cmd)
		}
		for _, which := range []string{"first", "middle", "last"} {
			for _, cmd := range []string{"update-all", "compare-all", "compare-all-gh"} {
				cells = append(cells, cl+"|tree+"+which+"|"+cmd)
			}
		}
	}
	// history: everything is brought up to date, then the rule's id disappears from the rules file (its SecRule line stays)
	for _, cmd := range []string{"update", "update-all", "compare-gh"} {
		cells = append(cells, "rule-id-changed-after-update|history|"+cmd)
	}
	for _, cl := range c16ArgFaults {
		for _, cmd := range []string{"generate", "update", "compare", "format", "format-check", "renumber", "renumber-check"} {
			cells = append(cells, cl+"|arg|"+cmd)
		}
	}
	for _, cmd := range []string{"copyright"} {
		cells = append(cells, "invalid-version|arg|"+cmd, "missing-version|arg|"+cmd)
	}
	for _, cmd := range []string{"update", "update-all", "format", "format-all", "renumber", "renumber-all", "copyright"} {
		cells = append(cells, "write-erofs|io|"+cmd, "write-enospc|io|"+cmd)
	}
	// a file the command has to read cannot be read (EACCES on open, EIO on read), injected through the I/O seam
	for _, cmd := range []string{"generate", "update", "update-all", "compare", "compare-all", "compare-all-gh", "format", "format-check", "format-all", "renumber", "renumber-check", "renumber-all", "copyright"} {
		cells = append(cells, "read-eacces|io|"+cmd, "read-eio|io|"+cmd)
	}
	for _, cmd := range []string{"generate", "update", "compare"} {
		cells = append(cells, "read-eacces|io-include|"+cmd)
	}
	return cells
}

func insertLines(lines []string, at int, add []string) []string {
	out := append([]string{}, lines[:at]...)
	out = append(out, add...)
	return append(out, lines[at:]...)
}

func genC16(t *rapid.T, tier string) (*World, any) {
	cell := currentCell
	parts := strings.Split(cell, "|")
	class, position, cmd := parts[0], parts[1], parts[2]
	which := "first"
	if i := strings.Index(position, "+"); i >= 0 {
		which = position[i+1:]
		position = position[:i]
	}
	p := &C16Params{Cell: cell, Class: class, Position: position, Cmd: cmd, Mode: "loud"}
	// a valid world: three rules (the first with a chain), four assembly files, two include files
	w := NewWorld()
	rulesPath := "crs/rules/REQUEST-942-APPLICATION-ATTACK-SQLI.conf"
	rf := &RuleFile{Path: rulesPath}
	rf.Rules = []RuleSpec{
		{ID: "942100", Ops: []string{"@rx", "@rx", "!@rx"}, Regex: []string{"stale0", "stale1", "stale2"}},
		{ID: "942110", Ops: []string{"@rx"}, Regex: []string{"stale3"}},
		{ID: "942120", Ops: []string{"!@rx"}, Regex: []string{"stale4"}},
	}
	ropts := RulesOpts{CRLF: chance(t, 20, "crlf")}
	if chance(t, 30, "idnotfirst") {
		ropts.IDNotFirst = []int{drawInt(t, 0, 1, "inf0"), drawInt(t, 0, 1, "inf1"), drawInt(t, 0, 1, "inf2")}
	}
	renderRuleFile(rf, ropts, "# rules\n\n", nil)
	w.Put(rulesPath, rf.Content)
	w.Put("crs/rules/REQUEST-941-APPLICATION-ATTACK-XSS.conf", "# other\n")
	w.Put("crs/regex-assembly/include/inc1.ra", joinLines(drawWordList(t, 1, 4, "inc1", []string{"s", "es"})))
	w.Put("crs/regex-assembly/include/inc2.ra", "##!^ p\nqq\nrr\n")
	w.Put("crs/regex-assembly/include/withflags.ra", "plain\n")
	w.Put("crs/regex-assembly/include/onlyone.ra", "word\n")
	if chance(t, 30, "dotfiles") {
		w.Put("crs/regex-assembly/.gitkeep", "")
		w.Put("crs/regex-assembly/.942100.ra.swp", "swap\n")
		w.Put("crs/regex-assembly/include/.gitkeep", "")
	}
	w.Put("crs/regex-assembly/exclude/ex-all.ra", "word\n")
	opts := ProgOpts{Flags: true, PrefixSufx: true, Blocks: true, Cmdline: true, Defs: true, Includes: []string{"inc1", "inc2"}, Pairs: true, Comments: true, MaxLines: 6}
	targets := []string{"942100-chain1", "942100", "942110", "942120"} // walk order
	secRuleLine := map[string]int{}
	{
		// line index of each target's SecRule line (update never adds or removes lines)
		n := 0
		sec := 0
		order := []string{"942100", "942100-chain1", "942100-chain2", "942110", "942120"}
		for i, l := range strings.Split(rf.Content, "\n") {
			if strings.HasPrefix(strings.TrimLeft(l, " "), "SecRule") {
				secRuleLine[order[sec]] = i
				sec++
			}
			n++
		}
	}
	progs := map[string][]string{}
	for _, name := range targets {
		progs[name] = drawProgram(t, opts, "prog").Lines
	}
	w.Put("crs/tests/regression/tests/REQUEST-942-APPLICATION-ATTACK-SQLI/942100.yaml", dirtyYaml)
	w.Put("crs/crs-setup.conf.example", dirtyConf)
	victim := targets[map[string]int{"first": 0, "middle": drawInt(t, 1, 2, "mid"), "last": 3}[which]]
	if !strings.HasSuffix(cmd, "-all") && !strings.HasSuffix(cmd, "all-gh") {
		victim = pick(t, targets, "victim")
	}
	write := func(world *World, ps map[string][]string) {
		for name, lines := range ps {
			world.Put("crs/regex-assembly/"+name+".ra", joinLines(lines))
		}
	}
	write(w, progs)
	control := w.Clone()
	single := map[string][]string{
		"generate": {"regex", "generate"}, "update": {"regex", "update"}, "compare": {"regex", "compare"},
		"compare-gh": {"-o", "github", "regex", "compare"}, "format": {"regex", "format"}, "format-check": {"regex", "format", "--check"},
		"renumber": {"util", "renumber-tests"}, "renumber-check": {"util", "renumber-tests", "--check"},
	}
	all := map[string][]string{
		"update-all": {"regex", "update", "--all"}, "compare-all": {"regex", "compare", "--all"},
		"compare-all-gh": {"-o", "github", "regex", "compare", "--all"}, "format-all": {"regex", "format", "--all"},
		"renumber-all": {"util", "renumber-tests", "--all"},
	}
	argv := func(arg string) []string {
		if a, ok := all[cmd]; ok {
			return a
		}
		if cmd == "generate-stdin" {
			return []string{"regex", "generate", "-"}
		}
		if cmd == "copyright" {
			return []string{"chore", "update-copyright", "-v", "4.2.0", "-y", "2026"}
		}
		return append(append([]string{}, single[cmd]...), arg)
	}
	p.Argv = argv(victim)
	p.CtlArgv = p.Argv
	p.Target = rulesPath
	p.TgtLine = secRuleLine[victim]
	if strings.HasPrefix(cmd, "format") {
		p.Target = "crs/regex-assembly/" + victim + ".ra"
	}
	if cmd == "generate-stdin" {
		p.FaultyRa = "crs/regex-assembly/" + victim + ".ra"
	}
	switch {
	case c16LineFaults[class] != "":
		fault := strings.Split(c16LineFaults[class], "\n")
		if class == "unsupported-flag" {
			// alone, or next to supported flags
			fault = []string{pick(t, []string{"##!+ x", "##!+ ix", "##!+ sx", "##!+ xi", "##!+ I", "##!+ i,s"}, "badflag")}
		}
		lines := progs[victim]
		at := drawInt(t, 0, len(lines), "at")
		// keep flags lines and definitions valid where they are: insert after a leading flags line
		for at < len(lines) && strings.HasPrefix(lines[at], "##!+") {
			at++
		}
		// never insert inside an open block of the drawn program for the "top" position
		depth := 0
		for i := 0; i < at; i++ {
			tl := strings.TrimSpace(lines[i])
			if strings.HasPrefix(tl, "##!> assemble") || strings.HasPrefix(tl, "##!> cmdline") {
				depth++
			}
			if tl == "##!<" {
				depth--
			}
		}
		if depth > 0 {
			at = len(lines)
		}
		switch position {
		case "top":
			lines = insertLines(lines, at, fault)
		case "block":
			blk := append([]string{"##!> assemble", "inblock"}, fault...)
			blk = append(blk, "##!<")
			lines = insertLines(lines, at, blk)
		case "include":
			w.Put("crs/regex-assembly/include/faulty.ra", joinLines(append([]string{"okword"}, fault...)))
			control.Put("crs/regex-assembly/include/faulty.ra", "okword\n")
			lines = insertLines(lines, at, []string{"##!> include faulty"})
			cl := insertLines(progs[victim], at, []string{"##!> include faulty"})
			control.Put("crs/regex-assembly/"+victim+".ra", joinLines(cl))
		}
		if class == "flags-in-include" {
			w.Put("crs/regex-assembly/include/withflags.ra", "##!+ i\nplain\n")
			cl := insertLines(progs[victim], at, fault)
			control.Put("crs/regex-assembly/"+victim+".ra", joinLines(cl))
		}
		w.Put("crs/regex-assembly/"+victim+".ra", joinLines(lines))
		if strings.HasPrefix(cmd, "format") {
			p.Mode = "loud-or-complete"
		}
	case class == "unknown-stored-elsewhere":
		// the first file in walk order stores "shared"; the victim only reads it
		if victim == targets[0] {
			victim = targets[2]
			p.Argv = argv(victim)
			p.TgtLine = secRuleLine[victim]
		}
		store := append(append([]string{}, progs[targets[0]]...), "##!> assemble", "  left", "  ##!=< shared", "  right", "##!<")
		w.Put("crs/regex-assembly/"+targets[0]+".ra", joinLines(store))
		control.Put("crs/regex-assembly/"+targets[0]+".ra", joinLines(store))
		use := append(append([]string{}, progs[victim]...), "##!> assemble", "  mid", "  ##!=> shared", "  end", "##!<")
		w.Put("crs/regex-assembly/"+victim+".ra", joinLines(use))
	case class == "rule-id-absent":
		// an assembly file for a rule the rules file does not contain (sorted between the others for "middle")
		name := map[string]string{"first": "942090", "middle": "942105", "last": "942190"}[which]
		w.Put("crs/regex-assembly/"+name+".ra", "orphan\n")
		victim = name
		p.Argv = argv(victim)
		p.TgtLine = -1
	case class == "rule-id-changed-after-update":
		victim = pick(t, []string{"942110", "942120"}, "hvictim")
		p.Argv = argv(victim)
		p.CtlArgv = p.Argv
		p.Pre = [][]string{{"regex", "update", "--all"}}
		p.Edit = &c16Edit{Path: rulesPath, Old: "id:" + victim, New: "id:" + victim[:5] + "9"}
		p.TgtLine = secRuleLine[victim]
	case class == "chain-offset-absent":
		name := map[string]string{"first": "942100-chain7", "middle": "942110-chain1", "last": "942120-chain1"}[which]
		if which == "first" {
			// sorts first in walk order
			name = "942100-chain0007"
			name = "942100-chain3"
			delete(progs, "942100-chain1")
			delete(w.Files, "crs/regex-assembly/942100-chain1.ra")
			delete(control.Files, "crs/regex-assembly/942100-chain1.ra")
		}
		w.Put("crs/regex-assembly/"+name+".ra", "nochain\n")
		victim = name
		p.Argv = argv(victim)
		p.TgtLine = -1
	case class == "rules-file-absent":
		name := map[string]string{"first": "912100", "middle": "942105", "last": "955100"}[which]
		if which == "middle" {
			// the only rules file for 942 disappears: every 942 item fails; the first one in walk order is the failing item
			delete(w.Files, rulesPath)
			w.Dirs = append(w.Dirs, "crs/rules")
			victim = "942100-chain1"
			if !strings.Contains(cmd, "all") {
				victim = pick(t, targets, "victim2")
			}
			p.Target = ""
		} else {
			w.Put("crs/regex-assembly/"+name+".ra", "norulesfile\n")
			victim = name
		}
		p.Argv = argv(victim)
		p.TgtLine = -1
	case class == "operator-not-rx":
		// the addressed rule / chain link exists but carries another operator: there is no regular expression to write or compare
		if !strings.Contains(cmd, "all") {
			victim = pick(t, targets, "victim4")
		}
		where := map[string][2]int{"942100-chain1": {0, 1}, "942100": {0, 0}, "942110": {1, 0}, "942120": {2, 0}}[victim]
		rf2 := &RuleFile{Path: rulesPath}
		for _, r := range rf.Rules {
			rf2.Rules = append(rf2.Rules, RuleSpec{ID: r.ID, Ops: append([]string{}, r.Ops...), Regex: append([]string{}, r.Regex...)})
		}
		rf2.Rules[where[0]].Ops[where[1]] = pick(t, []string{"@pm", "@pmFromFile", "@contains"}, "otherop")
		renderRuleFile(rf2, ropts, "# rules\n\n", nil)
		w.Put(rulesPath, rf2.Content)
		p.Argv = argv(victim)
		p.CtlArgv = p.Argv
		p.TgtLine = secRuleLine[victim]
	case class == "two-rules-files":
		w.Put("crs/rules/REQUEST-942-APPLICATION-ATTACK-SQLI-B.conf", rf.Content)
		victim = targets[0]
		if !strings.Contains(cmd, "all") {
			victim = pick(t, targets, "victim3")
		}
		p.Argv = argv(victim)
		p.TgtLine = secRuleLine[victim]
	case class == "malformed-rule-id":
		bad := pick(t, []string{"94210", "9421000", "942100-chain256", "942100-chain", "942100-chainx", "abc", "942100.raw", "942100-chain99999999999999999999", "", " 942100"}, "badarg")
		p.Argv = argv(bad)
		if strings.HasPrefix(cmd, "format") || strings.HasPrefix(cmd, "renumber") {
			// these take other names too; an argument that resolves to no file is the fault
			p.Argv = argv(pick(t, []string{"94210", "nosuchinclude", "942199", "9421000"}, "badarg2"))
		}
		p.CtlArgv = argv("942100")
		p.Target = ""
	case class == "target-file-absent":
		p.Argv = argv(pick(t, []string{"942199", "942100-chain9", "555555"}, "absent"))
		p.CtlArgv = argv("942100")
		p.Target = ""
	case class == "invalid-version":
		p.Argv = []string{"chore", "update-copyright", "-v", pick(t, []string{"notaversion", "4..1", "v", "4.1.0.0.0", "-1", "1.2.3-", "latest"}, "badver"), "-y", "2026"}
		p.Target = ""
	case class == "missing-version":
		p.Argv = []string{"chore", "update-copyright", "-y", "2026"}
		if drawBool(t, "emptyver") {
			p.Argv = []string{"chore", "update-copyright", "-v", "", "-y", "2026"}
		}
		p.Target = ""
	case class == "read-eacces" || class == "read-eio":
		p.Mode = "read-fault"
		kind := strings.TrimPrefix(class, "read-")
		suffix := ".ra"
		switch {
		case position == "io-include":
			suffix = "include/inc1.ra"
			lines := append(append([]string{}, progs[victim]...), "##!> include inc1")
			w.Put("crs/regex-assembly/"+victim+".ra", joinLines(lines))
			control.Put("crs/regex-assembly/"+victim+".ra", joinLines(lines))
		case cmd == "update" || cmd == "update-all" || strings.HasPrefix(cmd, "compare"):
			suffix = pick(t, []string{".conf", ".ra"}, "rsuffix")
		case strings.HasPrefix(cmd, "renumber"):
			suffix = ".yaml"
			if cmd == "renumber" || cmd == "renumber-check" {
				p.Argv = append(append([]string{}, single[cmd]...), "942100")
			}
		case cmd == "copyright":
			suffix = pick(t, []string{".conf", ".example"}, "cpsuffix")
		}
		p.CtlArgv = p.Argv
		for _, op := range []string{"open", "readfile"} {
			p.Plan.IOFaults = append(p.Plan.IOFaults, simrt.IOFault{Op: op, PathSuffix: suffix, Nth: 1, Kind: kind})
		}
	case class == "write-erofs" || class == "write-enospc":
		p.Mode = "write-fault"
		kind := strings.TrimPrefix(class, "write-")
		suffix := ".conf"
		switch {
		case strings.HasPrefix(cmd, "format"):
			suffix = ".ra"
			// make sure there is something to write
			for _, name := range targets {
				w.Put("crs/regex-assembly/"+name+".ra", "   "+w.Files["crs/regex-assembly/"+name+".ra"].Text)
			}
			control = w.Clone()
		case strings.HasPrefix(cmd, "renumber"):
			suffix = ".yaml"
			if cmd == "renumber" {
				p.Argv = []string{"util", "renumber-tests", "942100"}
			}
		case cmd == "copyright":
			suffix = pick(t, []string{".conf", ".example"}, "cpsuffix")
		}
		p.CtlArgv = p.Argv
		p.Plan.IOFaults = []simrt.IOFault{{Op: "writefile", PathSuffix: suffix, Nth: drawInt(t, 1, 2, "nth"), Kind: kind, Arg: drawInt(t, 0, 40, "prefix")}}
		if cmd != "update-all" && cmd != "format-all" && cmd != "copyright" {
			p.Plan.IOFaults[0].Nth = 1
		}
	}
	if !strings.Contains(cmd, "all") && (class == "rule-id-absent" || class == "chain-offset-absent" || class == "rules-file-absent") {
		p.CtlArgv = argv("942110")
	}
	sched := drawPlan(t, "plan", strings.Contains(cmd, "all") && p.Mode != "loud")
	p.Plan.MapAll, p.Plan.MapDefault, p.Plan.MapOverrides, p.Plan.StdinChunks = sched.MapAll, sched.MapDefault, sched.MapOverrides, sched.StdinChunks
	p.Control = control
	return w, p
}

func evalC16(sc *Scenario, sim *Sim) ([]Violation, bool, string) {
	var p C16Params
	if err := json.Unmarshal(sc.Params, &p); err != nil {
		machinery("params: %v", err)
	}
	var viol []Violation
	add := func(what, msg, detail string) {
		viol = append(viol, Violation{Prop: "C16", Oracle: "loud-failure", Sig: fmt.Sprintf("C16/%s/%s/%s", p.Class, p.Cmd, what), Msg: msg,
			Detail: detail + "\ncell: " + p.Cell + "\nargv: " + strings.Join(p.Argv, " ") + "\nworld:" + worldText(sc.World)})
	}
	stdinFor := func(w *World) *Data {
		if p.Cmd != "generate-stdin" {
			return nil
		}
		d := w.Files[p.FaultyRa]
		return &d
	}
	// fault-free control: the same command on the same world without the fault must succeed,
	// otherwise a failure under the fault says nothing
	ctl := sim.NewSandbox(p.Control)
	for _, pre := range p.Pre {
		ctl.Run(Step{Argv: pre, Cwd: "crs"})
	}
	cplan := p.Plan
	cplan.IOFaults = nil
	cr := ctl.Run(Step{Argv: p.CtlArgv, Cwd: "crs", Plan: cplan, Stdin: stdinFor(p.Control)})
	ctl.Close()
	ctlOK := cr.Exit == 0
	if (p.Cmd == "compare" || p.Cmd == "compare-gh" || p.Cmd == "compare-all-gh") && cr.Exit == 1 && !strings.Contains(string(cr.Stderr), "FTL") && !strings.Contains(string(cr.Stderr), "PNC") && !strings.Contains(string(cr.Stderr), "ERR") {
		ctlOK = true // the stored regexes are stale, compare says so; that is a verdict, not a failure
	}
	if (p.Cmd == "format-check" || p.Cmd == "renumber-check") && cr.Exit == 1 {
		ctlOK = true
	}
	if !ctlOK {
		sim.Stats.probe("control-failed")
		return nil, false, ""
	}
	sb := sim.NewSandbox(sc.World)
	defer sb.Close()
	for _, pre := range p.Pre {
		sb.Run(Step{Argv: pre, Cwd: "crs"})
	}
	if p.Edit != nil {
		data := sb.MustRead(p.Edit.Path)
		sb.Write(p.Edit.Path, bytes.Replace(data, []byte(p.Edit.Old), []byte(p.Edit.New), 1))
	}
	before := sb.Snap()
	var tgtBefore []byte
	if p.Target != "" {
		tgtBefore, _ = sb.Read(p.Target)
	}
	r := sb.Run(Step{Argv: p.Argv, Cwd: "crs", Plan: p.Plan, Stdin: stdinFor(sc.World)})
	after := sb.Snap()
	changed := before.Diff(after, false)
	switch p.Mode {
	case "read-fault":
		fired := false
		for _, e := range r.Trace {
			if e.Kind == "IO" && len(e.Fields) >= 3 && strings.HasPrefix(e.Fields[2], "FAULT:") {
				fired = true
			}
		}
		if !fired {
			sim.Stats.probe("read-fault-not-reached")
			return nil, false, ""
		}
		if r.Exit == 0 {
			add("exit0", "a file the command needs could not be read ("+p.Class+") but the command exited 0", fmt.Sprintf("stdout: %q\nstderr: %s", clip(r.Stdout), clip(r.Stderr)))
		}
		if strings.HasPrefix(p.Cmd, "generate") && len(r.Stdout) > 0 {
			add("regex-printed", "generate could not read its input but printed a regex", clip(r.Stdout))
		}
		// update-copyright walks the whole tree like an --all run: files before the unreadable one may have been written
		if !strings.Contains(p.Cmd, "all") && p.Cmd != "copyright" && len(changed) > 0 {
			add("tree-modified", "the failing command changed the tree: "+strings.Join(changed, " "), "")
		}
		return viol, true, p.Cell
	case "write-fault":
		fired := false
		for _, e := range r.Trace {
			if e.Kind == "IO" && len(e.Fields) >= 3 && strings.HasPrefix(e.Fields[2], "FAULT:") {
				fired = true
			}
		}
		if !fired {
			sim.Stats.probe("write-fault-not-reached")
			return nil, false, ""
		}
		if r.Exit == 0 {
			add("exit0", "a write of the target failed ("+p.Class+") but the command exited 0", clip(r.Stderr))
		}
		return viol, true, p.Cell
	case "loud-or-complete":
		tgtAfter, _ := sb.Read(p.Target)
		if r.Exit != 0 {
			if !bytes.Equal(tgtBefore, tgtAfter) {
				add("failed-but-wrote", fmt.Sprintf("format failed (exit %d) but modified the faulty file", r.Exit), fmt.Sprintf("after: %q", clip(tgtAfter)))
			}
		} else {
			b, a := stripLines(tgtBefore), stripLines(tgtAfter)
			if len(a) >= 2 && strings.HasPrefix(a[0], "##!Pleaserefer") {
				a = a[2:]
				if len(a) > 0 && a[0] == "" {
					a = a[1:]
				}
			}
			if strings.Join(a, "\n") != strings.Join(b, "\n") {
				add("exit0-content-lost", "format exited 0 on a faulty file and changed more than white space", fmt.Sprintf("before: %q\nafter: %q", b, a))
			}
			// a formatted file always starts with the standard header
			if !bytes.HasPrefix(tgtAfter, []byte(raHeader)) {
				add("exit0-but-not-formatted", fmt.Sprintf("`%s` exited 0 but the faulty file does not even carry the standard header afterwards: it was not formatted", strings.Join(p.Argv, " ")), fmt.Sprintf("file: %q", clip(tgtAfter)))
			}
			// exit 0 means the requested output was completely written: the faulty file itself must now be formatted,
			// i.e. formatting it on its own succeeds and changes nothing
			victimArg := strings.TrimSuffix(strings.TrimPrefix(p.Target, "crs/regex-assembly/"), ".ra")
			r2 := sb.Run(Step{Argv: []string{"regex", "format", victimArg}, Cwd: "crs"})
			tgtAgain, _ := sb.Read(p.Target)
			if r2.Exit != 0 || !bytes.Equal(tgtAgain, tgtAfter) {
				add("exit0-but-not-formatted", fmt.Sprintf("`%s` exited 0 but the faulty file was not formatted: formatting it alone afterwards exits %d / changes it", strings.Join(p.Argv, " "), r2.Exit), clip(r2.Stderr))
			}
		}
		return viol, true, p.Cell
	}
	// loud
	if r.Exit == 0 {
		add("exit0", "the command cannot do what was asked ("+p.Class+") but exits 0", fmt.Sprintf("stdout: %q\nstderr: %s", clip(r.Stdout), clip(r.Stderr)))
	}
	if strings.HasPrefix(p.Cmd, "generate") && len(r.Stdout) > 0 {
		add("regex-printed", "generate failed but printed a regex", fmt.Sprintf("stdout: %q", clip(r.Stdout)))
	}
	if strings.Contains(p.Cmd, "all") {
		// items before the failing one may have been written; the failing item's target must be untouched
		if p.Target != "" && p.TgtLine >= 0 && strings.HasPrefix(p.Cmd, "update") {
			tgtAfter, _ := sb.Read(p.Target)
			bl := strings.Split(string(tgtBefore), "\n")
			al := strings.Split(string(tgtAfter), "\n")
			if p.TgtLine < len(bl) && (p.TgtLine >= len(al) || al[p.TgtLine] != bl[p.TgtLine]) {
				add("target-modified", "the rule line of the failing item was modified", fmt.Sprintf("before: %q\nafter: %q", bl[p.TgtLine], safeIdx(al, p.TgtLine)))
			}
		}
		if !strings.HasPrefix(p.Cmd, "update") && len(changed) > 0 {
			add("tree-modified", "an inspecting command changed the tree: "+strings.Join(changed, " "), "")
		}
		if strings.HasPrefix(p.Cmd, "update") {
			for _, c := range changed {
				if c != "~"+p.Target {
					add("tree-modified", "update --all changed something other than the rules file: "+c, "")
				}
			}
		}
	} else if len(changed) > 0 {
		add("tree-modified", "the failing command changed the tree: "+strings.Join(changed, " "), "")
	}
	return viol, true, p.Cell + fmt.Sprintf("|%x", sc.World.Hash())
}

func safeIdx(a []string, i int) string {
	if i < len(a) {
		return a[i]
	}
	return "<missing>"
}

func init() {
	register(&Property{
		ID: "C16", Level: "fault_enumeration",
		Rule: "cells = {fault class} x {position: top level, in a block, in an included file; first / middle / last file of an --all run} x {command for which the fault makes the request impossible}, written down once from the statement (missing include / exclude file, named relatively or by an absolute path, unparsable entry, unknown processor, unknown cmdline type, missing / stray ##!<, unknown stored name, missing identifier, unsupported flag, flags line in an include, odd replacement list; rule id / chain offset / rules file absent, two rules files for the prefix, the addressed rule carries another operator than @rx; malformed RULE_ID, absent target file; invalid / missing version; second tier, injected through the I/O seam: EROFS before the first byte or ENOSPC after a prefix on the write of the target; EACCES on open / EIO on read of a file the command needs - assembly file, include file, rules file, test file, .conf / .example file). Every cell is enumerated in every run and instantiated on seeded valid worlds (3 rules, chain, 4 assembly files, includes); each instance first runs the command fault-free on the twin world (control), then with the fault, under a seeded schedule. Oracle: exit != 0; generate prints nothing; the failing item's target (file, or rule line for update --all) and, for single-target invocations, the whole tree are byte-identical; format on unsupported flag / stray end marker may alternatively complete with white-space-only changes; write faults: exit != 0 only. Non-trivial = control succeeded and the fault was reached; distinct = distinct cells x worlds.",
		Gen:  genC16, Eval: evalC16,
		Cells: c16Cells,
		ChecksPerCell: func(tier string) int {
			if tier == "thorough" {
				return 200
			}
			return 30
		},
		Timeout: 20 * time.Second,
		Assumptions: []string{
			"items processed before the failing one in an --all run may have been written; items after it are not judged",
			"for the write-fault tier only the exit status is judged (I/O errors are not in the statement's list; a torn target is not a violation)",
		},
		RealStub: realStubDefault,
	})
	_ = sort.Strings
}
