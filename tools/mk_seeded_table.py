#!/usr/bin/env python3
"""Prints the markdown table of DESIGN.md section 9 from seeded/*/*/meta.json, seeded/RESULTS-firstpass.txt (the checks as
they were when the change was first tried) and seeded/RESULTS-final.txt (the checks as committed)."""
import json, glob, os, re
def load(f):
    res = {}
    if not os.path.exists(f): return res
    for l in open(f):
        m = re.match(r'SEEDED (\S+) RESULT tests=(\d+) demo_clean=(\d+) demo_mut=(\d+) check_exit=(\d+)\s*(.*)', l.strip())
        if m: res[m.group(1)] = m.groups()[1:]
    return res
first, final = load('/verif/seeded/RESULTS-firstpass.txt'), load('/verif/seeded/RESULTS-final.txt')
print("| change | what it breaks - what it needs to manifest | confirmed | first try | committed checks (quick tier) |")
print("|---|---|---|---|---|")
n = caught = 0
for meta in sorted(glob.glob('/verif/seeded/C*/*/meta.json')):
    d = os.path.dirname(meta); key = '/'.join(d.split('/')[-2:])
    m = json.load(open(meta))
    what = re.sub(r'\s+', ' ', (m.get('what_it_breaks','') or ''))[:200].replace('|','\\|')
    need = re.sub(r'\s+', ' ', (m.get('needs_to_manifest','') or ''))[:170].replace('|','\\|')
    ind = '' if m.get('independent', True) else ' *(written with knowledge of the generators)*'
    f1, f2 = first.get(key), final.get(key)
    def show(r):
        if not r: return '-'
        if r[3] == '1': return 'caught: `%s`' % (r[4].split(' ')[0] if r[4] else '?')
        if r[3] == '2': return 'exit 2 (not steerable)'
        return 'MISSED'
    conf = '-'
    if f2: conf = 'yes' if (f2[0]=='0' and f2[1]=='0' and f2[2]!='0') else 'tests=%s clean=%s changed=%s' % f2[:3]
    n += 1; caught += 1 if (f2 and f2[3]=='1') else 0
    last = show(f2)
    if m.get('status_note'): last += ' - ' + m['status_note']
    print(f"| {key}{ind} | {what} - {need} | {conf} | {show(f1)} | {last} |")
print(f"\n{caught} of {n} seeded changes are caught by the committed quick tier.")
