SIM_NOTE = ("Trusted base: the instrumenter (type-driven rewrite of the scratch copy) and simrt preserve the program's semantics "
            "apart from the choices they take over; the driver's reference models are written from the property statement. "
            "Sampling, not proof: a clean run is evidence for the explored schedules / histories / faults only.")

add("C03", "exploration",
    "Seeded search over map-iteration schedules (the only scheduler inside this single-goroutine program): every command is re-run from the same initial disk under permuted iteration orders at the seamed range-over-map sites, another simulated instant, unrelated environment and a relocated root; exit status, stdout and the final tree must equal the identity-schedule run. Exploration is the right level because the space (programs x permutations) is unbounded and the property only fails when a particular order meets a particular program.",
    SIM_NOTE + " Map iteration inside dependencies is not seamed (audited by ./check selftest with the uninstrumented twin).",
    "deterministic simulation: seeded schedule exploration of map-iteration order, differential against the identity schedule",
    "DESIGN.md section 4, C03")
