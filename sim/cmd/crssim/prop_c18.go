package main

import (
	"bytes"
	"encoding/json"
	"fmt"
	"math/big"
	"path/filepath"
	"regexp"
	"strings"
	"time"

	"pgregory.net/rapid"

	"crssim/simrt"
)

// C18 - rule arguments, file names, chain offsets and the CRS root resolve consistently.
// The simulator controls argv, cwd, -d and the tree, and observes the resolution
// through the I/O trace and the disk.

type C18Params struct {
	Mode   string `json:"mode"` // arg | stdin | root | all
	Cmd    string `json:"cmd"`  // generate | update | compare | format
	Arg    string `json:"arg"`
	Cwd    string `json:"cwd"`
	Dir    string `json:"dir"`
	DirAbs bool   `json:"dir_abs"`
	// expectations computed from the statement by the generator
	Accept bool       `json:"accept"`
	File   string     `json:"file"`  // sandbox-relative path of the assembly file that must be read
	Root   string     `json:"root"`  // sandbox-relative expected root ("" = none can be resolved)
	Link   int        `json:"link"`  // chain offset
	Names  []string   `json:"names"` // mode all: file names present
	Plan   simrt.Plan `json:"plan"`
	// Absent: the argument is well-formed but regex-assembly/<file> does not exist, while include/<file> does
	Absent bool `json:"absent,omitempty"`
}

var leadingZeroK = regexp.MustCompile(`-chain0[0-9]`)

// the statement's grammar
var c18ArgRe = regexp.MustCompile(`^([0-9]{6})(?:-chain([0-9]+))?(?:\.ra)?$`)

func parseArgModel(arg string) (ok bool, id string, k int, file string) {
	m := c18ArgRe.FindStringSubmatch(arg)
	if m == nil {
		return false, "", 0, ""
	}
	k = 0
	if m[2] != "" {
		n, good := new(big.Int).SetString(m[2], 10)
		if !good || n.Cmp(big.NewInt(255)) > 0 {
			return false, "", 0, ""
		}
		k = int(n.Int64())
	}
	file = strings.TrimSuffix(arg, ".ra") + ".ra"
	return true, m[1], k, file
}

func c18Rules() *RuleFile {
	rf := &RuleFile{Path: "rules/REQUEST-942-APPLICATION-ATTACK-SQLI.conf"}
	rf.Rules = []RuleSpec{
		{ID: "942100", Ops: []string{"@rx", "@rx", "!@rx", "@rx"}, Regex: []string{"stale0", "stale1", "stale2", "stale3"}},
		{ID: "942110", Ops: []string{"@rx"}, Regex: []string{"stale4"}},
	}
	long := RuleSpec{ID: "942120"}
	for k := 0; k <= 255; k++ {
		long.Ops = append(long.Ops, "@rx")
		long.Regex = append(long.Regex, fmt.Sprintf("stale-l%d", k))
	}
	rf.Rules = append(rf.Rules, long)
	renderRuleFile(rf, RulesOpts{}, "# rules\n\n", nil)
	return rf
}

func putRoot(w *World, root string, marker string) {
	rf := c18Rules()
	w.Put(root+"/"+rf.Path, rf.Content)
	w.Put(root+"/regex-assembly/942110.ra", marker+"\n")
	w.Put(root+"/regex-assembly/include/inc1.ra", "incl"+marker+"\n")
	w.Put(root+"/regex-assembly/toolchain.yaml", crsLikeConfig)
	w.Dirs = append(w.Dirs, root+"/util/a/b/c", root+"/tests/regression/tests")
}

func genC18(t *rapid.T, tier string) (*World, any) {
	w := NewWorld()
	p := &C18Params{Plan: drawPlan(t, "plan", true)}
	p.Mode = pick(t, []string{"arg", "arg", "stdin", "root", "root", "all"}, "mode")
	putRoot(w, "crs", "outer")
	switch p.Mode {
	case "arg":
		p.Cmd = pick(t, []string{"generate", "update", "compare", "format"}, "cmd")
		ks := []string{"0", "1", "2", "3", "7", "255", "256", "300", "18446744073709551616", "100000000000000000000", "01", "0255", "-1", "1.5", "x", ""}
		shapes := []string{"%s", "%s.ra", "%s-chain%s", "%s-chain%s.ra", "%s.ra.ra", "%s-chain%s.ra.ra", "%sx", "x%s", "%s-chain%sx", "%s-CHAIN%s", "%s-chain-%s", "%s_chain%s", " %s", "%s ", "%s-chain%s-chain%s", "./%s", "%s.RA", "%s-chain%s.r", "x/%s", "../%s-chain%s", "include/%s.ra", "/tmp/%s", "regex-assembly/%s"}
		ids := []string{"942100", "942100", "942100", "94210", "9421000", "0942100", "94210a", "٩٤٢١٠٠"}
		id := pick(t, ids, "id")
		k := pick(t, ks, "k")
		shape := pick(t, shapes, "shape")
		switch strings.Count(shape, "%s") {
		case 1:
			p.Arg = fmt.Sprintf(shape, id)
		case 2:
			p.Arg = fmt.Sprintf(shape, id, k)
		default:
			p.Arg = fmt.Sprintf(shape, id, k, k)
		}
		ok, rid, link, file := parseArgModel(p.Arg)
		p.Accept = ok
		p.Link = link
		p.Cwd = "crs"
		p.Root = "crs"
		if ok {
			p.File = "crs/regex-assembly/" + file
			_ = rid
		}
		// the plain files exist as well: an argument that is wrongly taken for one of them succeeds instead of failing for lack of a file
		for _, base := range []string{"942100", "942100-chain1", "942100-chain2", "942100-chain3"} {
			w.Put("crs/regex-assembly/"+base+".ra", "base"+base+"\n")
		}
		// the file the argument would name literally exists, accepted or not, so that rejection is the parser's doing
		lit := strings.TrimSuffix(p.Arg, ".ra")
		if lit != "" && !strings.ContainsAny(lit, "/\x00") && strings.TrimSpace(lit) == lit {
			w.Put("crs/regex-assembly/"+lit+".ra", "fresh"+fmt.Sprint(link)+"\n")
		}
		if ok {
			w.Put(p.File, "fresh"+fmt.Sprint(link)+"\n")
		}
		if ok && !leadingZeroK.MatchString(p.Arg) && chance(t, 12, "absent-file") {
			// a rule argument names a file in regex-assembly/, never one of the same name further down
			delete(w.Files, p.File)
			w.Put("crs/regex-assembly/include/"+file, "   inc"+fmt.Sprint(link)+"\n")
			w.Put("crs/regex-assembly/exclude/"+file, "   exc"+fmt.Sprint(link)+"\n")
			p.Absent = true
		}
	case "stdin":
		p.Cmd = "generate"
		p.Arg = pick(t, []string{"942100", "942100.ra", "942100-chain2", "942100-chain2.ra"}, "arg")
		_, _, link, file := parseArgModel(p.Arg)
		p.Link = link
		p.Accept = true
		p.Cwd, p.Root = "crs", "crs"
		p.File = "crs/regex-assembly/" + file
		prog := drawProgram(t, ProgOpts{Spicy: chance(t, 30, "spicy"), Flags: true, PrefixSufx: true, Blocks: true, Cmdline: true, Defs: true, Includes: []string{"inc1"}, Pairs: true, Comments: true, MaxLines: 8}, "prog")
		content := joinLines(prog.Lines)
		switch drawInt(t, 0, 3, "eof") {
		case 0:
			content = strings.TrimSuffix(content, "\n")
		case 1:
			content = strings.ReplaceAll(content, "\n", "\r\n")
		}
		if lines := strings.Split(strings.TrimRight(content, "\r\n"), "\n"); !strings.HasPrefix(strings.TrimSpace(lines[len(lines)-1]), "##!") && chance(t, 12, "last-trailing") {
			// white space at the end of the last entry is part of that entry on both paths
			content = strings.TrimRight(content, "\r\n") + pick(t, []string{" ", "\t", "  "}, "last-trailing-v") + pick(t, []string{"\n", "", "\n\n"}, "last-trailing-nl")
		}
		if chance(t, 15, "bom") {
			content = "\ufeff" + content // whatever a byte order mark means to the compiler, it means the same on both paths
		}
		w.Put(p.File, content)
	case "root":
		p.Cmd = pick(t, []string{"generate", "update", "compare", "format"}, "cmd")
		p.Arg = "942110"
		p.Accept = true
		// nested roots and a sibling root
		putRoot(w, "crs/util/a/nested", "nested")
		if chance(t, 50, "nested-without-config") {
			// a root's configuration is its own file or none: never the enclosing root's
			delete(w.Files, "crs/util/a/nested/regex-assembly/toolchain.yaml")
			delete(w.Files, "crs/regex-assembly/vendored/regex-assembly/toolchain.yaml")
		}
		putRoot(w, "other", "other")
		// roots whose path merely contains the text "regex-assembly"
		putRoot(w, "crs/regex-assembly-plugins/inner", "innerplug")
		putRoot(w, "crs/regex-assembly/vendored", "vendored")
		if (p.Cmd == "generate" || p.Cmd == "format") && chance(t, 30, "nested-without-rules") {
			// regex-assembly makes a root; a rules directory is not required for commands that do not need one
			delete(w.Files, "crs/util/a/nested/rules/REQUEST-942-APPLICATION-ATTACK-SQLI.conf")
		}
		w.Dirs = append(w.Dirs, "empty/x/y", "crs/util/a/nested/deep/er")
		if chance(t, 50, "checkouts") {
			// other checkouts inside the tree (a plugin repository, a submodule, the root's own .git): the rule looks for regex-assembly only
			w.Put("crs/.git/HEAD", "ref: refs/heads/main\n")
			w.Put("crs/util/a/.git/HEAD", "ref: refs/heads/main\n")
			w.Put("crs/util/a/nested/deep/.git", "gitdir: ../../.git/modules/deep\n")
			w.Put("crs/rules/.git", "gitdir: ../.git/worktrees/rules\n")
			w.Put("empty/.git/HEAD", "ref: refs/heads/main\n")
		}
		// a symbolic link inside one root that points into another: the ancestors of the -d ARGUMENT count, not those of the link's target
		w.Links = map[string]string{"crs/linked": "../other/util/a", "crs/util/dangling": "../../nowhere"}
		type place struct{ cwd, dir, root string }
		places := []place{
			{"crs", "", "crs"}, {"crs", ".", "crs"}, {"", "crs", "crs"}, {"", "crs/rules", "crs"}, {"", "crs/util/a/b/c", "crs"},
			{"", "crs/util/a", "crs"}, {"", "crs/util/a/nested", "crs/util/a/nested"}, {"", "crs/util/a/nested/deep/er", "crs/util/a/nested"},
			{"crs/util/a/nested", "", "crs/util/a/nested"}, {"crs/util/a/nested/deep", "er", "crs/util/a/nested"}, {"crs/util/a/nested", "..", "crs"},
			{"other", "../crs/rules", "crs"}, {"crs", "../other/rules", "other"}, {"", "crs/regex-assembly", "crs"}, {"", "crs/regex-assembly/include", "crs"},
			{"", "empty/x/y", ""}, {"", "empty", ""}, {"empty", "..", ""},
			{"crs", "../empty/x/y", ""}, {"crs/util/a/nested", "../../../../empty", ""}, {"other", "../empty/x", ""},
			{"crs/rules", "", "crs/rules"}, {"crs/util/a/b", "", "crs/util/a/b"}, // without -d the working directory itself is the root
			{"", "crs/util/a/nested/regex-assembly", "crs/util/a/nested"},
			{"", "crs/regex-assembly-plugins/inner", "crs/regex-assembly-plugins/inner"}, {"", "crs/regex-assembly-plugins/inner/rules", "crs/regex-assembly-plugins/inner"},
			{"", "crs/regex-assembly-plugins", "crs"}, {"", "crs/regex-assembly/vendored", "crs/regex-assembly/vendored"}, {"", "crs/regex-assembly/vendored/rules", "crs/regex-assembly/vendored"},
			{"crs/regex-assembly/vendored/rules", "..", "crs/regex-assembly/vendored"},
			{"", "crs/linked", "crs"}, {"", "crs/linked/b", "crs"}, {"crs", "linked", "crs"},
			{"", "crs/", "crs"}, {"", "crs/rules/", "crs"}, {"", "crs/./rules/../util", "crs"}, {"crs", "rules/REQUEST-942-APPLICATION-ATTACK-SQLI.conf", "crs"},
			{"", "crs/regex-assembly/942110.ra", "crs"}, {"", "crs/util/a/nested/", "crs/util/a/nested"},
		}
		pl := pick(t, places, "place")
		p.Cwd, p.Dir, p.Root = pl.cwd, pl.dir, pl.root
		p.DirAbs = p.Dir != "" && drawBool(t, "abs")
		if p.Root != "" {
			p.File = p.Root + "/regex-assembly/942110.ra"
		}
	case "all":
		p.Cmd = pick(t, []string{"update", "compare"}, "cmd")
		p.Cwd, p.Root = "crs", "crs"
		pool := []string{"942100.ra", "942100-chain1.ra", "942100-chain2.ra", "942100-chain3.ra", "942100-chain0.ra", "942110.ra",
			"942100-chain256.ra", "942100-chain300.ra", "942100-chain18446744073709551616.ra", "9421000.ra", "94210.ra", "942100.ra.ra", "942100-chain1x.ra", "x942100.ra", "942100.txt", "942100-chain.ra",
			"942120.ra", "942120-chain1.ra", "942120-chain127.ra", "942120-chain128.ra", "942120-chain130.ra", "942120-chain255.ra", "942120-chain256.ra"}
		n := drawInt(t, 1, 5, "n")
		seen := map[string]bool{}
		for i := 0; i < n; i++ {
			nm := pick(t, pool, "name")
			// precondition of --all: no two files address the same rule line
			if seen[nm] || (nm == "942100.ra" && seen["942100-chain0.ra"]) || (nm == "942100-chain0.ra" && seen["942100.ra"]) {
				continue
			}
			seen[nm] = true
			p.Names = append(p.Names, nm)
		}
		delete(w.Files, "crs/regex-assembly/942110.ra")
		for _, nm := range p.Names {
			w.Put("crs/regex-assembly/"+nm, "fresh"+strings.NewReplacer(".", "", "-", "").Replace(nm)+"\n")
		}
	}
	return w, p
}

// rootsSeen extracts the roots the child used from its I/O trace (toolchain.yaml is opened under <root>/regex-assembly by every regex command).
func rootsSeen(r *Result, sb *Sandbox) []string {
	var out []string
	seen := map[string]bool{}
	for _, c := range r.IOCalls("open") {
		if strings.HasSuffix(c[0], "/regex-assembly/toolchain.yaml") {
			root := strings.TrimSuffix(c[0], "/regex-assembly/toolchain.yaml")
			rel, err := filepath.Rel(sb.W, root)
			if err != nil {
				rel = root
			}
			if !seen[rel] {
				seen[rel] = true
				out = append(out, rel)
			}
		}
	}
	return out
}

func evalC18(sc *Scenario, sim *Sim) ([]Violation, bool, string) {
	var p C18Params
	if err := json.Unmarshal(sc.Params, &p); err != nil {
		machinery("params: %v", err)
	}
	sb := sim.NewSandbox(sc.World)
	defer sb.Close()
	var viol []Violation
	add := func(oracle, what, msg, detail string) {
		viol = append(viol, Violation{Prop: "C18", Oracle: oracle, Sig: "C18/" + oracle + "/" + what, Msg: msg,
			Detail: detail + fmt.Sprintf("\nmode=%s cmd=%s arg=%q cwd=%q -d=%q", p.Mode, p.Cmd, p.Arg, p.Cwd, p.Dir)})
	}
	argv := func() []string {
		var a []string
		if p.Dir != "" {
			d := p.Dir
			if p.DirAbs {
				d = filepath.Clean(filepath.Join(sb.W, p.Cwd, p.Dir))
				if strings.HasSuffix(p.Dir, "/") {
					d += "/" // as the user (or shell completion) wrote it
				}
			}
			a = append(a, "-d", d)
		}
		switch p.Cmd {
		case "generate":
			a = append(a, "regex", "generate")
		case "update":
			a = append(a, "regex", "update")
		case "compare":
			a = append(a, "regex", "compare")
		case "format":
			a = append(a, "regex", "format")
		}
		if p.Mode == "all" {
			return append(a, "--all")
		}
		// "--" so that arguments starting with a dash reach the command as arguments
		if strings.HasPrefix(p.Arg, "-") {
			a = append(a, "--")
		}
		return append(a, p.Arg)
	}
	rulesRel := "rules/REQUEST-942-APPLICATION-ATTACK-SQLI.conf"
	before := sb.Snap()
	r := sb.Run(Step{Argv: argv(), Cwd: p.Cwd, Plan: p.Plan})
	after := sb.Snap()
	changed := before.Diff(after, false)
	readPaths := func() []string {
		var out []string
		for _, c := range append(r.IOCalls("readfile"), r.IOCalls("open")...) {
			if strings.HasSuffix(c[0], ".ra") {
				rel, _ := filepath.Rel(sb.W, c[0])
				out = append(out, rel)
			}
		}
		return out
	}
	switch p.Mode {
	case "arg":
		if !p.Accept && p.Cmd == "format" && strings.Contains(p.Arg, "/") {
			// for format an argument outside the rule grammar is an include NAME; what a name with a path separator means
			// (it can walk from include/ back to an existing file) is not something the statement decides: not judged
			break
		}
		if !p.Accept {
			loud := r.Exit != 0
			if p.Cmd == "format" {
				// format also takes include names: an argument outside the rule grammar names regex-assembly/include/<arg>.ra,
				// which does not exist here, so it must fail as well
			}
			if !loud {
				add("grammar", "accepted-"+p.Cmd, fmt.Sprintf("argument %q is outside the grammar NNNNNN[-chainK][.ra] (K <= 255) but `%s` exits 0", p.Arg, p.Cmd), fmt.Sprintf("files read: %v\nstdout: %q", readPaths(), clip(r.Stdout)))
			}
			if len(changed) > 0 {
				add("grammar", "rejected-but-wrote-"+p.Cmd, fmt.Sprintf("argument %q must be rejected but files changed: %s", p.Arg, strings.Join(changed, " ")), "")
			}
			break
		}
		if p.Absent {
			if r.Exit == 0 {
				add("file-resolution", "absent-data-file-"+p.Cmd, fmt.Sprintf("argument %q names %s, which does not exist (files of that name exist in include/ and exclude/), but `%s` exits 0", p.Arg, p.File, p.Cmd), fmt.Sprintf("files read: %v\nstdout: %q", readPaths(), clip(r.Stdout)))
			}
			if len(changed) > 0 {
				add("file-resolution", "absent-data-file-wrote-"+p.Cmd, fmt.Sprintf("argument %q names %s, which does not exist, but files changed: %s", p.Arg, p.File, strings.Join(changed, " ")), "")
			}
			break
		}
		if leadingZeroK.MatchString(p.Arg) && r.Exit != 0 {
			break // whether K may be written with leading zeros is not fixed by the statement: a rejection is not judged
		}
		if r.Exit != 0 && !(p.Cmd == "compare" && strings.Contains(string(r.Stdout), "has changed!")) {
			// K beyond the rule's chain is a legitimate failure (C16); everything else must be accepted
			if !(p.Link > 3 && (p.Cmd == "update" || p.Cmd == "compare")) {
				add("grammar", "rejected-"+p.Cmd, fmt.Sprintf("argument %q is inside the grammar but `%s` fails (exit %d)", p.Arg, p.Cmd, r.Exit), clip(r.Stderr))
			}
			break
		}
		got := readPaths()
		found := false
		altFile := ""
		if leadingZeroK.MatchString(p.Arg) {
			// K written with leading zeros: the file named as written and the file named with the plain number are both defensible
			m := c18ArgRe.FindStringSubmatch(p.Arg)
			altFile = fmt.Sprintf("crs/regex-assembly/%s-chain%d.ra", m[1], p.Link)
		}
		for _, g := range got {
			if g == p.File || (altFile != "" && g == altFile) {
				found = true
			} else if !strings.Contains(g, "/include/") {
				add("file", "wrong-file-"+p.Cmd, fmt.Sprintf("argument %q must resolve to %s but %s was read", p.Arg, p.File, g), "")
			}
		}
		if !found {
			add("file", "not-read-"+p.Cmd, fmt.Sprintf("argument %q must resolve to %s; files read: %v", p.Arg, p.File, got), "")
		}
		if p.Cmd == "update" && p.Link <= 3 {
			// exactly the K-th chained rule's operand changed
			rf := c18Rules()
			orig := []byte(rf.Content)
			sp := rf.Spans[0][p.Link]
			want := append(append(append([]byte{}, orig[:sp[0]]...), []byte("fresh"+fmt.Sprint(p.Link))...), orig[sp[1]:]...)
			gotb := sb.MustRead("crs/" + rulesRel)
			if !bytes.Equal(gotb, want) {
				add("chain-offset", "wrong-line", fmt.Sprintf("`update %s` must rewrite the operand of chain link %d of rule 942100 only", p.Arg, p.Link), fmt.Sprintf("got:\n%q", clip2(gotb, 1500)))
			}
		}
	case "stdin":
		d := sc.World.Files[p.File]
		r2 := sb.Run(Step{Argv: []string{"regex", "generate", "-"}, Cwd: p.Cwd, Plan: p.Plan, Stdin: &d})
		if r.Exit != r2.Exit || !bytes.Equal(r.Stdout, r2.Stdout) {
			add("stdin-equals-file", "differs", fmt.Sprintf("`generate %s` and `generate -` with the same bytes on stdin differ (exit %d vs %d)", p.Arg, r.Exit, r2.Exit),
				fmt.Sprintf("file:  %q\nstdin: %q\ncontent: %q", clip(r.Stdout), clip(r2.Stdout), clip(d.Bytes())))
		}
	case "root":
		roots := rootsSeen(&r, sb)
		if p.Root == "" {
			if r.Exit == 0 {
				add("root", "no-root-but-exit0", fmt.Sprintf("no ancestor of -d %q holds regex-assembly but the command exits 0 (roots used: %v)", p.Dir, roots), "")
			}
			if len(changed) > 0 {
				add("root", "no-root-but-wrote", "no root can be resolved but files changed: "+strings.Join(changed, " "), "")
			}
			break
		}
		for _, rt := range roots {
			if rt != p.Root {
				add("root", "wrong-root", fmt.Sprintf("the root must be %q (cwd=%q, -d=%q) but %q was used", p.Root, p.Cwd, p.Dir, rt), "")
			}
		}
		hasTree := isDir(filepath.Join(sb.W, p.Root, "regex-assembly"))
		if hasTree {
			if len(roots) == 0 {
				add("root", "no-root-used", fmt.Sprintf("the command did not open the configuration below the expected root %q (exit %d)", p.Root, r.Exit), clip(r.Stderr))
			}
			if leadingZeroK.MatchString(p.Arg) && r.Exit != 0 {
				break // whether K may be written with leading zeros is not fixed by the statement: a rejection is not judged
			}
			if r.Exit != 0 && !(p.Cmd == "compare" && strings.Contains(string(r.Stdout), "has changed!")) {
				add("root", "fails-in-valid-root", fmt.Sprintf("the command fails (exit %d) although the root %q resolves", r.Exit, p.Root), clip(r.Stderr))
			}
		} else if r.Exit == 0 {
			add("root", "exit0-without-tree", fmt.Sprintf("without -d the working directory %q is the root; it has no regex-assembly but the command exits 0", p.Root), "")
		}
		for _, c := range changed {
			if !strings.HasPrefix(c[1:], p.Root+"/") {
				add("root", "wrote-outside-root", "a file outside the resolved root changed: "+c, "")
			}
		}
		for _, rp := range readPaths() {
			if !strings.HasPrefix(rp, p.Root+"/") {
				add("root", "read-outside-root", fmt.Sprintf("an assembly file outside the resolved root %q was read: %s", p.Root, rp), "")
			}
		}
	case "all":
		// which names must be processed, skipped, or make the run fail
		rf := c18Rules()
		orig := rf.Content
		wantFail := false
		type upd struct {
			rule, link int
			text       string
		}
		var upds []upd
		names := append([]string{}, p.Names...)
		sortStrings(names)
		for _, nm := range names {
			if !strings.HasSuffix(nm, ".ra") {
				continue
			}
			ok, id, k, _ := parseArgModel(nm)
			m := c18ArgRe.FindStringSubmatch(nm)
			if !ok {
				if m != nil {
					wantFail = true // grammar shape with K > 255: rejected, not wrapped
					break
				}
				continue // not a rule file name: skipped
			}
			ri := 0
			if id == "942110" {
				ri = 1
			}
			if id == "942120" {
				ri = 2
			}
			if k >= len(rf.Rules[ri].Ops) {
				wantFail = true
				break
			}
			nu := upd{ri, k, "fresh" + strings.NewReplacer(".", "", "-", "").Replace(nm)}
			replaced := false
			for i := range upds {
				if upds[i].rule == ri && upds[i].link == k {
					upds[i] = nu // two names for one line (NNNNNN and NNNNNN-chain0): the later one in walk order is written last
					replaced = true
				}
			}
			if !replaced {
				upds = append(upds, nu)
			}
		}
		if wantFail {
			if r.Exit == 0 {
				add("all-names", "exit0", fmt.Sprintf("a file name with a chain offset above 255 or beyond the chain must make `%s --all` fail, names: %v", p.Cmd, names), clip(r.Stdout))
			}
			break
		}
		if p.Cmd == "update" {
			if r.Exit != 0 {
				add("all-names", "fails", fmt.Sprintf("`update --all` fails (exit %d) on names %v", r.Exit, names), clip(r.Stderr))
				break
			}
			// apply the model's updates from the last span to the first so that offsets stay valid
			want := orig
			for i := len(rf.Rules) - 1; i >= 0; i-- {
				for k := len(rf.Rules[i].Ops) - 1; k >= 0; k-- {
					for _, u := range upds {
						if u.rule == i && u.link == k {
							sp := rf.Spans[i][k]
							want = want[:sp[0]] + u.text + want[sp[1]:]
						}
					}
				}
			}
			got := string(sb.MustRead("crs/" + rulesRel))
			if got != want {
				add("all-names", "wrong-lines", fmt.Sprintf("`update --all` with files %v did not rewrite exactly the lines their names address", names), fmt.Sprintf("got:\n%q\nwant:\n%q", clip2([]byte(got), 1500), clip2([]byte(want), 1500)))
			}
		}
	}
	return viol, true, string(sc.Params)
}

func sortStrings(s []string) {
	for i := 1; i < len(s); i++ {
		for j := i; j > 0 && s[j] < s[j-1]; j-- {
			s[j], s[j-1] = s[j-1], s[j]
		}
	}
}

func init() {
	register(&Property{
		ID: "C18", Level: "exploration",
		Rule: "scenario in one of four modes. arg: argument strings built from 8 id shapes x 16 chain numbers (0, 1, 2, 3, 7, 255, 256, 300, 2^64, 10^20, leading zeros, signs, fractions, letters, empty) x 18 surface shapes (.ra, .ra.ra, trailing / leading junk, upper case, blanks, doubled -chain, ./) for generate / update / compare / format, with the literally named file present; oracle: accepted iff inside the statement's grammar with K <= 255, the file read (I/O trace) is regex-assembly/NNNNNN[-chainK].ra, update rewrites exactly the K-th chained rule's operand (disk vs structure), rejected implies exit != 0 and no write. stdin: generate ARG vs generate - with the same bytes (LF / CRLF / no final newline). root: 27 combinations of cwd and -d (also trailing slashes, unclean paths, -d naming a file) (absolute or relative; at, below, beside a root; nested roots; no root at all; no -d; in half of the scenarios with .git directories / files of other checkouts on the way up) - the root observed through the trace must be the nearest ancestor-or-self of -d holding regex-assembly, or exactly cwd without -d; nothing outside it is read or written. all: --all over 1-5 file names drawn from in-grammar, K > 255 and near-miss names - in-grammar names address exactly their lines, near misses are skipped, K > 255 fails. Each run under a seeded schedule. Distinct = distinct parameter sets.",
		Gen:  genC18, Eval: evalC18,
		QuickChecks: 1500, ThoroughChecks: 30000, Timeout: 20 * time.Second,
		Assumptions: []string{
			"leading zeros in K are accepted by the grammar; the file name is then the argument as written",
			"for format an argument outside the rule grammar is an include name; the corresponding include file does not exist in these worlds, so it must fail",
		},
		RealStub: realStubDefault,
	})
}
