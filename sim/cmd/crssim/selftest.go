package main

import (
	"bytes"
	"encoding/json"
	"fmt"
	"os"
	"os/exec"
	"path/filepath"
	"sort"
	"strings"
	"sync"
	"time"

	"pgregory.net/rapid"

	"crssim/simrt"
)

// Self-tests of the machinery (not of the repository):
//   determinism - the same scenario step, run twice in fresh sandboxes at different GOMAXPROCS
//                 of the child, gives identical exit status, stdout, stderr, event trace and tree;
//   fidelity    - where every single-site schedule agrees with the identity schedule, the
//                 uninstrumented twin agrees as well;
//   replay      - a scenario written to disk and read back evaluates to the same verdict.

type stScenario struct {
	W *World
	P *C03Params
}

func normalise(b []byte, root string) []byte {
	return bytes.ReplaceAll(b, []byte(root), []byte("<SANDBOX>"))
}

func traceString(tr []TraceEvent, root string) string {
	var sb strings.Builder
	for _, e := range tr {
		sb.WriteString(e.Kind)
		for _, f := range e.Fields {
			sb.WriteString("\t" + strings.ReplaceAll(f, root, "<SANDBOX>"))
		}
		sb.WriteString("\n")
	}
	return sb.String()
}

func snapString(s Snapshot) string {
	keys := make([]string, 0, len(s))
	for k := range s {
		keys = append(keys, k)
	}
	sort.Strings(keys)
	var sb strings.Builder
	for _, k := range keys {
		v := s[k]
		fmt.Fprintf(&sb, "%s %s %d %s %o\n", k, v.Type, v.Size, v.Sha, v.Mode)
	}
	return sb.String()
}

type stReport struct {
	Scenarios             int      `json:"scenarios"`
	Steps                 int      `json:"steps"`
	Divergences           []string `json:"divergences"`
	Fidelity              int      `json:"fidelity_checked"`
	FidelityBad           []string `json:"fidelity_bad"`
	SkippedOrderDependent int      `json:"skipped_order_dependent"`
}

func selftestWorker(build string, seed int64, worker, n int, out string) {
	loadSites(build)
	rep := &stReport{}
	sim := &Sim{BuildDir: build, Timeout: 20 * time.Second, Stats: NewStats()}
	gen := rapid.Custom(func(t *rapid.T) stScenario {
		w, p := genC03(t, "quick")
		return stScenario{w, p.(*C03Params)}
	})
	procs := []string{"1", "4", "16"}
	func() {
		defer func() {
			if r := recover(); r != nil {
				if me, ok := r.(MachineryError); ok {
					rep.Divergences = append(rep.Divergences, "machinery: "+me.Msg)
					return
				}
				panic(r)
			}
		}()
		for i := 0; i < n; i++ {
			sc := gen.Example(int(seed)*100000 + worker*1000 + i)
			rep.Scenarios++
			for ci, c := range sc.P.Cmds {
				plans := []simrt.Plan{{}}
				for _, a := range sc.P.Alts {
					plans = append(plans, a.Plan)
				}
				for pi, plan := range plans {
					type obs struct {
						exit                        int
						stdout, stderr, trace, snap string
					}
					var first *obs
					for rep2 := 0; rep2 < 2; rep2++ {
						sb := sim.NewSandbox(sc.W)
						st := Step{Argv: c.Argv, Cwd: "crs", Plan: plan, Env: map[string]string{"GOMAXPROCS": procs[(i+rep2+pi)%3]}}
						if c.StdinFile != "" {
							d := sc.W.Files[c.StdinFile]
							st.Stdin = &d
						}
						r := sb.Run(st)
						rep.Steps++
						o := &obs{r.Exit, string(normalise(r.Stdout, sb.Root)), string(normalise(r.Stderr, sb.Root)), traceString(r.Trace, sb.Root), snapString(sb.Snap())}
						sb.Close()
						if first == nil {
							first = o
							continue
						}
						var diff []string
						if o.exit != first.exit {
							diff = append(diff, "exit")
						}
						if o.stdout != first.stdout {
							diff = append(diff, "stdout")
						}
						if o.stderr != first.stderr {
							diff = append(diff, "stderr")
						}
						if o.trace != first.trace {
							diff = append(diff, "trace")
						}
						if o.snap != first.snap {
							diff = append(diff, "tree")
						}
						if len(diff) > 0 {
							rep.Divergences = append(rep.Divergences, fmt.Sprintf("example %d cmd %d (%s) plan %d: %s differ between two runs of the same scenario step",
								int(seed)*100000+worker*1000+i, ci, strings.Join(c.Argv, " "), pi, strings.Join(diff, ",")))
						}
					}
				}
				// fidelity: single-site sweep, then the uninstrumented twin
				if i%2 == 0 {
					sb := sim.NewSandbox(sc.W)
					run := func(plan simrt.Plan, plain bool) runOutcome {
						sb.Restore(sc.W)
						st := Step{Argv: c.Argv, Cwd: "crs", Plan: plan, Plain: plain}
						if c.StdinFile != "" {
							d := sc.W.Files[c.StdinFile]
							st.Stdin = &d
						}
						r := sb.Run(st)
						return runOutcome{Exit: r.Exit, Stdout: r.Stdout, Snap: sb.Snap(), Res: r}
					}
					base := run(simrt.Plan{}, false)
					agree := true
					maxN := map[string]int{}
					for _, e := range base.Res.Trace {
						if e.Kind == "M" && len(e.Fields) >= 2 && atoi(e.Fields[1]) > maxN[e.Fields[0]] {
							maxN[e.Fields[0]] = atoi(e.Fields[1])
						}
					}
					for _, site := range sortedKeys(maxN) {
						for d := 1; d <= maxN[site] && d <= 7 && agree; d++ {
							if k, _ := describeDiff(base, run(simrt.Plan{MapDefault: map[string]int{site: d}}, false)); k != "" {
								agree = false
							}
						}
					}
					if !agree {
						rep.SkippedOrderDependent++
					} else {
						for k := 0; k < 3; k++ {
							if kind, detail := describeDiff(base, run(simrt.Plan{}, true)); kind != "" {
								rep.FidelityBad = append(rep.FidelityBad, fmt.Sprintf("example %d `%s`: plain twin differs in %s: %s", int(seed)*100000+worker*1000+i, strings.Join(c.Argv, " "), kind, clip([]byte(detail))))
							}
						}
						rep.Fidelity++
					}
					sb.Close()
				}
			}
		}
	}()
	data, _ := json.Marshal(rep)
	_ = os.WriteFile(out, data, 0o644)
}

func selftestMain(build, verif, tier string, seed int64) int {
	start := time.Now()
	workers := 32
	per := 8
	if tier == "thorough" {
		per = 60
	}
	tmp, err := os.MkdirTemp(shmBase, "crssim-selftest-")
	if err != nil {
		fmt.Fprintln(os.Stderr, err)
		return 2
	}
	defer os.RemoveAll(tmp)
	self, _ := os.Executable()
	var wg sync.WaitGroup
	errs := make([]string, workers)
	sem := make(chan struct{}, 16)
	for i := 0; i < workers; i++ {
		wg.Add(1)
		go func(i int) {
			defer wg.Done()
			sem <- struct{}{}
			defer func() { <-sem }()
			cmd := exec.Command(self, "selftest-worker", "-build", build, "-seed", fmt.Sprint(seed), "-worker", fmt.Sprint(i), "-workers", fmt.Sprint(per),
				"-out", filepath.Join(tmp, fmt.Sprintf("s%d.json", i)))
			// the driver itself also runs at different parallelism
			cmd.Env = append(os.Environ(), "GOMAXPROCS="+[]string{"1", "4", "16"}[i%3])
			if outb, err := cmd.CombinedOutput(); err != nil {
				errs[i] = fmt.Sprintf("%v: %s", err, outb)
			}
		}(i)
	}
	wg.Wait()
	total := &stReport{}
	for i := 0; i < workers; i++ {
		if errs[i] != "" {
			fmt.Fprintf(os.Stderr, "selftest worker %d: %s\n", i, errs[i])
			return 2
		}
		data, err := os.ReadFile(filepath.Join(tmp, fmt.Sprintf("s%d.json", i)))
		if err != nil {
			fmt.Fprintln(os.Stderr, err)
			return 2
		}
		r := &stReport{}
		_ = json.Unmarshal(data, r)
		total.Scenarios += r.Scenarios
		total.Steps += r.Steps
		total.Fidelity += r.Fidelity
		total.SkippedOrderDependent += r.SkippedOrderDependent
		total.Divergences = append(total.Divergences, r.Divergences...)
		total.FidelityBad = append(total.FidelityBad, r.FidelityBad...)
	}
	fmt.Printf("selftest %s: %d scenarios in %d worker processes (driver and child GOMAXPROCS 1/4/16), %d child runs compared pairwise, %d divergences; fidelity: %d command runs cross-checked against the uninstrumented twin (%d skipped as order-dependent), %d disagreements; %.1fs\n",
		tier, total.Scenarios, workers, total.Steps, len(total.Divergences), total.Fidelity, total.SkippedOrderDependent, len(total.FidelityBad), time.Since(start).Seconds())
	data, _ := json.MarshalIndent(total, "", " ")
	_ = os.MkdirAll(filepath.Join(verif, "selftest"), 0o755)
	_ = os.WriteFile(filepath.Join(verif, "selftest", "last.json"), data, 0o644)
	for _, d := range total.Divergences {
		fmt.Println("NONDETERMINISM:", d)
	}
	for _, d := range total.FidelityBad {
		fmt.Println("FIDELITY:", d)
	}
	if len(total.Divergences) > 0 || len(total.FidelityBad) > 0 {
		return 2
	}
	return 0
}
