#!/bin/bash
# Runs the quick tier of every claimed check on /repo and prints one line each; exit 1 if any is not clean.
cd "$(dirname "$(readlink -f "$0")")/.." || exit 2
bad=0
for p in $(python3 -c "import json;print(' '.join(c['property_id'] for c in json.load(open('MANIFEST.json'))['checks']))"); do
  out="$(VERIF_SEED="${VERIF_SEED:-1}" ./check "$p" "${1:-quick}" 2>&1)"; rc=$?
  echo "$out" | grep -E "^VIOLATION|signature:|KNOWN-FINDING|trouble|$p (quick|thorough):" | cut -c1-220
  [ $rc -ne 0 ] && { bad=1; echo "  -> $p exit $rc"; }
done
exit $bad
