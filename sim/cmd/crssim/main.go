// Command crssim is the simulator driver: it generates scenarios from one
// PRNG value, runs every CLI invocation as a child process of the
// instrumented binary under a chosen schedule and fault plan, and evaluates
// the property oracles over the recorded history.
package main

import (
	"flag"
	"fmt"
	"os"
)

func main() {
	if len(os.Args) < 2 {
		fmt.Fprintln(os.Stderr, "usage: crssim check|worker|replay|selftest ...")
		os.Exit(2)
	}
	sub := os.Args[1]
	fs := flag.NewFlagSet(sub, flag.ExitOnError)
	build := fs.String("build", "", "directory with crs-sim and crs-plain")
	verif := fs.String("verif", "/verif", "verification directory")
	prop := fs.String("prop", "", "property id")
	tier := fs.String("tier", "quick", "quick | thorough")
	seed := fs.Int64("seed", 1, "VERIF_SEED")
	worker := fs.Int("worker", 0, "worker index")
	workers := fs.Int("workers", 1, "number of workers")
	out := fs.String("out", "", "worker statistics file")
	quiet := fs.Bool("quiet", false, "replay: print signatures only")
	_ = fs.Parse(os.Args[2:])
	if *tier != "quick" && *tier != "thorough" {
		fmt.Fprintf(os.Stderr, "crssim: unknown tier %q\n", *tier)
		os.Exit(2)
	}
	loadSites(*build)
	switch sub {
	case "check":
		os.Exit(checkMain(*prop, *build, *verif, *tier, *seed))
	case "worker":
		p, ok := registry[*prop]
		if !ok {
			fmt.Fprintf(os.Stderr, "crssim: no check for %s\n", *prop)
			os.Exit(2)
		}
		workerMain(p, *build, *verif, *tier, *seed, *worker, *workers, *out)
	case "replay":
		if fs.NArg() != 1 {
			fmt.Fprintln(os.Stderr, "usage: crssim replay <file>")
			os.Exit(2)
		}
		os.Exit(replayMain(*build, *verif, fs.Arg(0), *quiet))
	case "selftest-worker":
		selftestWorker(*build, *seed, *worker, *workers, *out)
	case "selftest":
		os.Exit(selftestMain(*build, *verif, *tier, *seed))
	default:
		fmt.Fprintf(os.Stderr, "crssim: unknown subcommand %q\n", sub)
		os.Exit(2)
	}
}
