// Command instrument inserts the simulator seams into a scratch copy of the
// repository (never into /repo itself). It is driven by types, not by line
// numbers or names, so new range-over-map loops or new os.WriteFile calls in
// an edited tree are picked up automatically.
//
// usage: instrument -dir <scratch copy> -simrt <dir with simrt sources> [-report file]
package main

import (
	"bytes"
	"encoding/json"
	"flag"
	"fmt"
	"go/ast"
	"go/format"
	"go/token"
	"go/types"
	"os"
	"path/filepath"
	"sort"
	"strings"

	"golang.org/x/tools/go/ast/astutil"
	"golang.org/x/tools/go/packages"
)

type report struct {
	Module    string         `json:"module"`
	MapSites  []string       `json:"map_sites"`
	CallSites map[string]int `json:"call_sites"`
	Files     []string       `json:"files_rewritten"`
	// Range-over-map loops and sync.Map.Range calls in linked dependencies are
	// outside the seam; they are listed so that the determinism self-test can
	// audit them.
	Warnings []string `json:"warnings,omitempty"`
}

// function seams: package path -> func name -> simrt name
var funcSeams = map[string]map[string]string{
	"os": {
		"Open": "Open", "ReadFile": "ReadFile", "WriteFile": "WriteFile", "Stat": "Stat",
		"Create": "Create", "OpenFile": "OpenFile", "Remove": "Remove", "RemoveAll": "RemoveAll",
		"Rename": "Rename", "Mkdir": "Mkdir", "MkdirAll": "MkdirAll",
	},
	"path/filepath": {"WalkDir": "WalkDir", "Glob": "Glob"},
	"time":          {"Now": "Now"},
}

func fail(format string, args ...any) {
	fmt.Fprintf(os.Stderr, "instrument: "+format+"\n", args...)
	os.Exit(2)
}

func main() {
	dir := flag.String("dir", "", "scratch copy of the repository")
	simrtSrc := flag.String("simrt", "", "directory holding the simrt package sources")
	reportPath := flag.String("report", "", "write a JSON report here")
	flag.Parse()
	if *dir == "" || *simrtSrc == "" {
		fail("need -dir and -simrt")
	}

	cfg := &packages.Config{
		Mode: packages.NeedName | packages.NeedFiles | packages.NeedSyntax | packages.NeedTypes |
			packages.NeedTypesInfo | packages.NeedImports | packages.NeedModule | packages.NeedCompiledGoFiles,
		Dir:   *dir,
		Tests: false,
		Env:   os.Environ(),
	}
	pkgs, err := packages.Load(cfg, "./...")
	if err != nil {
		fail("load: %v", err)
	}
	if packages.PrintErrors(pkgs) > 0 {
		fail("the repository does not type-check; refusing to guess")
	}
	if len(pkgs) == 0 {
		fail("no packages")
	}
	var modPath string
	for _, p := range pkgs {
		if p.Module != nil && p.Module.Main {
			modPath = p.Module.Path
		}
	}
	if modPath == "" {
		fail("cannot determine module path")
	}
	simrtPath := modPath + "/internal/simrt"
	rep := report{Module: modPath, CallSites: map[string]int{}}

	var mainPkgDir string
	for _, p := range pkgs {
		if strings.HasPrefix(p.PkgPath, simrtPath) {
			continue
		}
		if p.Name == "main" && p.PkgPath == modPath {
			if len(p.GoFiles) > 0 {
				mainPkgDir = filepath.Dir(p.GoFiles[0])
			}
		}
		for i, file := range p.Syntax {
			fname := p.CompiledGoFiles[i]
			if strings.HasSuffix(fname, "_test.go") {
				continue
			}
			changed := rewriteFile(p, file, simrtPath, &rep)
			if !changed {
				continue
			}
			astutil.AddNamedImport(p.Fset, file, "simrt", simrtPath)
			for _, imp := range []string{"os", "path/filepath", "time"} {
				if !astutil.UsesImport(file, imp) {
					astutil.DeleteImport(p.Fset, file, imp)
				}
			}
			var buf bytes.Buffer
			if err := format.Node(&buf, p.Fset, file); err != nil {
				fail("format %s: %v", fname, err)
			}
			if err := os.WriteFile(fname, buf.Bytes(), 0o644); err != nil {
				fail("write %s: %v", fname, err)
			}
			rel, _ := filepath.Rel(*dir, fname)
			rep.Files = append(rep.Files, rel)
		}
	}
	if mainPkgDir == "" {
		fail("no main package found at module root")
	}

	// copy the runtime into internal/simrt
	dst := filepath.Join(*dir, "internal", "simrt")
	if err := os.MkdirAll(dst, 0o755); err != nil {
		fail("%v", err)
	}
	srcs, _ := filepath.Glob(filepath.Join(*simrtSrc, "*.go"))
	for _, s := range srcs {
		if strings.HasSuffix(s, "_test.go") {
			continue
		}
		data, err := os.ReadFile(s)
		if err != nil {
			fail("%v", err)
		}
		if err := os.WriteFile(filepath.Join(dst, filepath.Base(s)), data, 0o644); err != nil {
			fail("%v", err)
		}
	}
	// version / log-timestamp seam in package main
	initSrc := fmt.Sprintf(`//go:build verif

package main

import (
	"os"

	"github.com/rs/zerolog"

	simrt %q
)

func init() {
	// the release pipeline sets this variable with -ldflags -X; the simulator does it from the environment
	if v, ok := os.LookupEnv("CRS_SIM_VERSION"); ok {
		version = v
	}
	zerolog.TimestampFunc = simrt.Now
}
`, simrtPath)
	if err := os.WriteFile(filepath.Join(mainPkgDir, "zz_simrt_init.go"), []byte(initSrc), 0o644); err != nil {
		fail("%v", err)
	}

	sort.Strings(rep.MapSites)
	sort.Strings(rep.Files)
	if *reportPath != "" {
		data, _ := json.MarshalIndent(rep, "", " ")
		if err := os.WriteFile(*reportPath, data, 0o644); err != nil {
			fail("%v", err)
		}
	}
	fmt.Printf("instrument: %d map-range sites, %d call seams, %d files\n", len(rep.MapSites), total(rep.CallSites), len(rep.Files))
}

func total(m map[string]int) int {
	n := 0
	for _, v := range m {
		n += v
	}
	return n
}

// funcName returns "pkg.Func" or "pkg.(*T).Method" for the enclosing function.
func enclosingName(pkg *packages.Package, path []ast.Node) string {
	for i := len(path) - 1; i >= 0; i-- {
		if fd, ok := path[i].(*ast.FuncDecl); ok {
			name := fd.Name.Name
			if fd.Recv != nil && len(fd.Recv.List) > 0 {
				name = types.ExprString(fd.Recv.List[0].Type) + "." + name
			}
			return pkg.Name + "." + name
		}
	}
	return pkg.Name + ".<init>"
}

func rewriteFile(pkg *packages.Package, file *ast.File, simrtPath string, rep *report) bool {
	changed := false
	info := pkg.TypesInfo
	siteCount := map[string]int{}
	serial := 0

	// 1. function seams: replace selector expressions that resolve to the listed functions
	astutil.Apply(file, func(c *astutil.Cursor) bool {
		sel, ok := c.Node().(*ast.SelectorExpr)
		if !ok {
			return true
		}
		obj, ok := info.Uses[sel.Sel].(*types.Func)
		if !ok || obj.Pkg() == nil {
			return true
		}
		if sig, _ := obj.Type().(*types.Signature); sig != nil && sig.Recv() != nil {
			return true // methods are not seams
		}
		names, ok := funcSeams[obj.Pkg().Path()]
		if !ok {
			return true
		}
		repl, ok := names[obj.Name()]
		if !ok {
			return true
		}
		c.Replace(&ast.SelectorExpr{X: ast.NewIdent("simrt"), Sel: ast.NewIdent(repl)})
		rep.CallSites[obj.Pkg().Path()+"."+obj.Name()]++
		changed = true
		return false
	}, nil)

	// 1b. os.Stdin used as an io.Reader (argument of an interface-typed parameter, or receiver of Read)
	astutil.Apply(file, func(c *astutil.Cursor) bool {
		isStdin := func(e ast.Expr) bool {
			sel, ok := e.(*ast.SelectorExpr)
			if !ok {
				return false
			}
			v, ok := info.Uses[sel.Sel].(*types.Var)
			return ok && v.Pkg() != nil && v.Pkg().Path() == "os" && v.Name() == "Stdin"
		}
		mk := func() ast.Expr {
			return &ast.CallExpr{Fun: &ast.SelectorExpr{X: ast.NewIdent("simrt"), Sel: ast.NewIdent("Stdin")}}
		}
		switch n := c.Node().(type) {
		case *ast.CallExpr:
			sig, _ := info.TypeOf(n.Fun).(*types.Signature)
			for i, a := range n.Args {
				if !isStdin(a) || sig == nil {
					continue
				}
				var pt types.Type
				if i < sig.Params().Len() {
					pt = sig.Params().At(i).Type()
				} else if sig.Variadic() && sig.Params().Len() > 0 {
					if sl, ok := sig.Params().At(sig.Params().Len() - 1).Type().(*types.Slice); ok {
						pt = sl.Elem()
					}
				}
				if pt == nil {
					continue
				}
				if _, isIface := pt.Underlying().(*types.Interface); isIface {
					n.Args[i] = mk()
					rep.CallSites["os.Stdin(reader)"]++
					changed = true
				}
			}
			if sel, ok := n.Fun.(*ast.SelectorExpr); ok && sel.Sel.Name == "Read" && isStdin(sel.X) {
				sel.X = mk()
				rep.CallSites["os.Stdin(reader)"]++
				changed = true
			}
		}
		return true
	}, nil)

	// 2. range over map
	var stack []ast.Node
	ast.Inspect(file, func(n ast.Node) bool {
		if n == nil {
			stack = stack[:len(stack)-1]
			return true
		}
		stack = append(stack, n)
		rs, ok := n.(*ast.RangeStmt)
		if !ok {
			return true
		}
		tv, ok := info.Types[rs.X]
		if !ok {
			return true
		}
		if _, isMap := tv.Type.Underlying().(*types.Map); !isMap {
			return true
		}
		fn := enclosingName(pkg, stack)
		siteCount[fn]++
		site := fmt.Sprintf("%s#%d", fn, siteCount[fn])
		rep.MapSites = append(rep.MapSites, site)
		serial++
		itName := fmt.Sprintf("simIt%d", serial)
		okName := fmt.Sprintf("simOk%d", serial)

		isBlank := func(e ast.Expr) bool {
			if e == nil {
				return true
			}
			id, ok := e.(*ast.Ident)
			return ok && id.Name == "_"
		}
		var prelude []ast.Stmt
		keyExpr := &ast.SelectorExpr{X: ast.NewIdent(itName), Sel: ast.NewIdent("Key")}
		getCall := &ast.CallExpr{Fun: &ast.SelectorExpr{X: ast.NewIdent(itName), Sel: ast.NewIdent("Get")}}
		skip := &ast.IfStmt{
			Cond: &ast.UnaryExpr{Op: token.NOT, X: ast.NewIdent(okName)},
			Body: &ast.BlockStmt{List: []ast.Stmt{&ast.BranchStmt{Tok: token.CONTINUE}}},
		}
		tok := rs.Tok
		if tok == token.ILLEGAL {
			tok = token.DEFINE
		}
		if tok == token.DEFINE {
			if !isBlank(rs.Key) {
				prelude = append(prelude, &ast.AssignStmt{Lhs: []ast.Expr{rs.Key}, Tok: token.DEFINE, Rhs: []ast.Expr{keyExpr}})
			}
			if !isBlank(rs.Value) {
				prelude = append(prelude, &ast.AssignStmt{Lhs: []ast.Expr{rs.Value, ast.NewIdent(okName)}, Tok: token.DEFINE, Rhs: []ast.Expr{getCall}})
			} else {
				prelude = append(prelude, &ast.AssignStmt{Lhs: []ast.Expr{ast.NewIdent("_"), ast.NewIdent(okName)}, Tok: token.DEFINE, Rhs: []ast.Expr{getCall}})
			}
			prelude = append(prelude, skip)
		} else { // assignment form: for k, v = range m
			prelude = append(prelude, &ast.DeclStmt{Decl: &ast.GenDecl{Tok: token.VAR, Specs: []ast.Spec{
				&ast.ValueSpec{Names: []*ast.Ident{ast.NewIdent(okName)}, Type: ast.NewIdent("bool")}}}})
			if !isBlank(rs.Key) {
				prelude = append(prelude, &ast.AssignStmt{Lhs: []ast.Expr{rs.Key}, Tok: token.ASSIGN, Rhs: []ast.Expr{keyExpr}})
			}
			val := rs.Value
			if isBlank(val) {
				val = ast.NewIdent("_")
			}
			prelude = append(prelude, &ast.AssignStmt{Lhs: []ast.Expr{val, ast.NewIdent(okName)}, Tok: token.ASSIGN, Rhs: []ast.Expr{getCall}})
			prelude = append(prelude, skip)
		}
		// the original body keeps its own scope (it may shadow the loop variables)
		inner := &ast.BlockStmt{List: rs.Body.List}
		rs.Body.List = append(prelude, inner)
		rs.X = &ast.CallExpr{
			Fun:  &ast.SelectorExpr{X: ast.NewIdent("simrt"), Sel: ast.NewIdent("Iter")},
			Args: []ast.Expr{rs.X, &ast.BasicLit{Kind: token.STRING, Value: fmt.Sprintf("%q", site)}},
		}
		rs.Key = ast.NewIdent("_")
		rs.Value = ast.NewIdent(itName)
		rs.Tok = token.DEFINE
		changed = true
		return true
	})
	return changed
}
