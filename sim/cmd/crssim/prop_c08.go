package main

import (
	"bytes"
	"encoding/json"
	"fmt"
	"io/fs"
	"path/filepath"
	"sort"
	"strings"
	"time"

	"pgregory.net/rapid"

	"crssim/simrt"
)

// C08 - processing with --all equals processing each file on its own, in any order.
// Deciding observation: a relation between the final disks / outputs of different
// histories from the same initial disk, plus permuted directory traversal.

type C08Params struct {
	Cmd       string       `json:"cmd"`    // update | compare | compare-gh | format | format-check
	Orders    [][]int      `json:"orders"` // permutations of the addressable files (indices into walk order)
	DirPlan   []simrt.Plan `json:"dir_plans"`
	Plans     []simrt.Plan `json:"plans"`
	Probe     string       `json:"probe"` // which cross-file probe the world contains
	RulesPath string       `json:"rules_path"`
	// PreUpdate: targets (indices in sorted order) brought up to date before every history, so that compare sees a mix of current and stale rules
	PreUpdate []int `json:"pre_update,omitempty"`
	// NoFile: every command of the scenario runs under this limit of open files (0 = none)
	NoFile int `json:"nofile,omitempty"`
	// PreFormat: every history starts from the tree formatted with `format --all`, so that format --check has nothing to report but its lint
	PreFormat bool `json:"pre_format,omitempty"`
}

func genC08(t *rapid.T, tier string) (*World, any) {
	w := NewWorld()
	p := &C08Params{}
	p.Cmd = pick(t, []string{"update", "update", "compare", "compare-gh", "format", "format-check"}, "cmd")
	// any name that carries -942- addresses the rules file, whatever stands before it
	rf := &RuleFile{Path: "crs/rules/" + pick(t, []string{"REQUEST-942-APPLICATION-ATTACK-SQLI.conf", "REQUEST-942-APPLICATION-ATTACK-SQLI.conf", "CUSTOM-RULES-942-SQLI.conf", "RESPONSE-942-X.conf", "a-b-c-942-d.conf"}, "rulesname")}
	p.RulesPath = rf.Path
	ids := []string{"942100", "942110", "942120", "942130", "942140", "942150"}
	nr := drawInt(t, 2, 5, "nrules")
	type tgt struct {
		name string
	}
	var targets []string
	for i := 0; i < nr; i++ {
		spec := RuleSpec{ID: ids[i]}
		chain := 0
		if chance(t, 40, "chain") {
			chain = drawInt(t, 1, 2, "chainlen")
		}
		for k := 0; k <= chain; k++ {
			spec.Ops = append(spec.Ops, pick(t, []string{"@rx", "@rx", "!@rx"}, "op"))
			spec.Regex = append(spec.Regex, pick(t, []string{"old", "stale[a-z]", `x\"y`}, "stored"))
		}
		rf.Rules = append(rf.Rules, spec)
		for k := 0; k <= chain; k++ {
			if chance(t, 70, "hasfile") {
				name := ids[i]
				if k > 0 {
					name = fmt.Sprintf("%s-chain%d", ids[i], k)
				}
				targets = append(targets, name)
			}
		}
	}
	if len(targets) < 2 {
		targets = []string{ids[0], ids[1]}
	}
	if len(targets) > 6 {
		targets = targets[:6]
	}
	manyFiles := chance(t, 4, "manyfiles")
	if manyFiles {
		// more data files than the process may hold open at once: each is handled and released in turn
		for k := 0; k < 48; k++ {
			id := fmt.Sprintf("9422%02d", k)
			rf.Rules = append(rf.Rules, RuleSpec{ID: id, Ops: []string{"@rx"}, Regex: []string{"old"}})
			w.Put("crs/regex-assembly/"+id+".ra", fmt.Sprintf("many%d\nfiles%d\n", k, k%7))
		}
		p.NoFile = 40
	}
	renderRuleFile(rf, RulesOpts{}, "# rules\n\n", nil)
	w.Put(rf.Path, rf.Content)
	w.Put("crs/regex-assembly/include/inc1.ra", "abs\nbes\ncx\n")
	w.Put("crs/regex-assembly/include/inc2.ra", "  ##!^ p\nqq\n   rr\n")
	// decoys the walk must skip
	if chance(t, 50, "decoys") {
		w.Put("crs/regex-assembly/notes.ra", "##! not a rule file\nfoo\n")
		w.Put("crs/regex-assembly/9421000.ra", "seven\n")
		w.Put("crs/regex-assembly/942100.ra.bak", "bak\n")
		w.Put("crs/regex-assembly/README", "readme\n")
	}
	if chance(t, 25, "dotfiles") {
		// editor / VCS droppings: plain files the walk has to step over
		w.Put("crs/regex-assembly/.editorconfig", "root = true\n")
		w.Put("crs/regex-assembly/.942100.ra.swp", "swap\n")
		w.Put("crs/regex-assembly/include/.gitkeep", "")
	}
	// programs; the same stored-expression and definition names are used in different files
	opts := ProgOpts{Spicy: chance(t, 20, "spicy"), Flags: true, PrefixSufx: true, Blocks: true, Cmdline: true, Defs: true,
		Includes: []string{"inc1", "inc2"}, Pairs: true, Comments: true, MaxLines: 7, StoredNames: true}
	if tier == "thorough" {
		opts.MaxLines = 16
	}
	progs := map[string][]string{}
	for _, name := range targets {
		info := drawProgram(t, opts, "prog")
		lines := info.Lines
		if p.Cmd == "format" || p.Cmd == "format-check" {
			// surface noise so that format has something to do
			if chance(t, 60, "noise") {
				for i := range lines {
					if chance(t, 40, "noise-line") {
						lines[i] = ws(t, "nl", true) + strings.TrimLeft(lines[i], " ")
					}
				}
			}
		}
		progs[name] = lines
	}
	// cross-file probes
	sort.Strings(targets)
	_ = manyFiles
	p.Probe = pick(t, []string{"none", "none", "stash-writer-reader", "unclosed-block", "definition-elsewhere", "flags-elsewhere", "prefix-elsewhere", "exclude-under-other-definitions", "file-format-rejects", "uppercase-class-elsewhere", "cmdline-both-shells", "linked-data-file", "chain-number-beyond-255", "many-files-few-descriptors"}, "probe")
	a, b := targets[0], targets[1]
	if drawBool(t, "probe-swap") {
		a, b = b, a
	}
	switch p.Probe {
	case "stash-writer-reader":
		// a stores "shared"; b reads it without storing it (fails alone)
		progs[a] = append(progs[a], "##!> assemble", "  left", "  ##!=< shared", "  right", "##!<")
		progs[b] = append(progs[b], "##!> assemble", "  mid", "  ##!=> shared", "  end", "##!<")
	case "unclosed-block":
		progs[a] = append(progs[a], "##!> assemble", "  dangling")
	case "definition-elsewhere":
		progs[a] = append([]string{"##!> define shareddef [0-9]+"}, progs[a]...)
		progs[b] = append(progs[b], "q{{shareddef}}")
	case "exclude-under-other-definitions":
		// two files reach the same exclude file through include files that define the same name differently
		w.Put("crs/regex-assembly/include/words-ing.ra", "##!> define tail ing\nrunn{{tail}}\njump{{tail}}\nwalk{{tail}}\n")
		w.Put("crs/regex-assembly/include/words-er.ra", "##!> define tail er\nrunn{{tail}}\njump{{tail}}\nwalk{{tail}}\n")
		w.Put("crs/regex-assembly/exclude/no-jump.ra", "jump{{tail}}\n")
		progs[a] = append(progs[a], "##!> include-except words-ing no-jump")
		progs[b] = append(progs[b], "##!> include-except words-er no-jump")
	case "uppercase-class-elsewhere":
		// one file carries the i flag, another (flag-less) one an upper-case class: the lint of format --check must not carry over
		progs[a] = append([]string{"##!+ i"}, lowerAll(progs[a])...)
		progs[b] = append(progs[b], "up[A-Z]per")
	case "file-format-rejects":
		// a file that format refuses (stray end marker): --all must still treat every other file as the single invocations do
		progs[a] = append(progs[a], "##!<")
	case "cmdline-both-shells":
		// the same commands with the same markers, for one shell in one file and for the other shell in another
		progs[a] = append(progs[a], "##!> cmdline unix", "  shared@", "  other~", "  plain", "##!<")
		progs[b] = append(progs[b], "##!> cmdline windows", "  shared@", "  other~", "  plain", "##!<")
		w.Put("crs/regex-assembly/toolchain.yaml", crsLikeConfig)
	case "flags-elsewhere":
		progs[a] = append([]string{"##!+ i"}, lowerAll(progs[a])...)
	case "prefix-elsewhere":
		progs[a] = append([]string{"##!^ onlyhere"}, progs[a]...)
	}
	for name, lines := range progs {
		w.Put("crs/regex-assembly/"+name+".ra", joinLines(lines))
	}
	switch p.Probe {
	case "linked-data-file":
		// one data file is a symbolic link to a file kept elsewhere in the tree: it is a data file like the others
		data := w.Files["crs/regex-assembly/"+a+".ra"]
		delete(w.Files, "crs/regex-assembly/"+a+".ra")
		w.Files["crs/shared-data/"+a+".ra"] = data
		w.Links = map[string]string{"crs/regex-assembly/" + a + ".ra": "../shared-data/" + a + ".ra"}
	case "chain-number-beyond-255":
		// a file name whose chain number is out of range addresses nothing, with --all as with a single invocation
		w.Put("crs/regex-assembly/"+strings.SplitN(a, "-", 2)[0]+"-chain"+pick(t, []string{"256", "257", "300"}, "bigk")+".ra", "beyond\n")
	}
	if chance(t, 40, "cfg") || p.Probe == "cmdline-both-shells" {
		w.Put("crs/regex-assembly/toolchain.yaml", crsLikeConfig)
	}
	// orders of single invocations
	n := len(targets)
	if manyFiles {
		n += 48
	}
	if p.Cmd == "format" || p.Cmd == "format-check" {
		// the include files are addressable too
		for path := range w.Files {
			if strings.HasPrefix(path, "crs/regex-assembly/include/") {
				n++
			}
		}
	}
	no := 3
	if tier == "thorough" {
		no = 8
	}
	for i := 0; i < no; i++ {
		perm := simrt.Permutation(n, decisionOf(drawInt(t, 1, 24, "order")))
		p.Orders = append(p.Orders, perm)
	}
	if p.Cmd == "format-check" {
		p.PreFormat = chance(t, 60, "preformat")
	}
	if strings.HasPrefix(p.Cmd, "compare") {
		for i := range targets {
			if chance(t, 50, "preupdate") {
				p.PreUpdate = append(p.PreUpdate, i)
			}
		}
	}
	for i := 0; i < 2; i++ {
		pl := simrt.Plan{DirAll: decisionOf(drawInt(t, 1, 24, "dirorder"))}
		p.DirPlan = append(p.DirPlan, pl)
	}
	for i := 0; i < 3; i++ {
		p.Plans = append(p.Plans, drawPlan(t, fmt.Sprintf("plan%d", i), false))
	}
	return w, p
}

func lowerAll(lines []string) []string {
	out := make([]string, len(lines))
	for i, l := range lines {
		if strings.Contains(l, "##!") {
			out[i] = l
		} else {
			out[i] = strings.ToLower(l)
		}
	}
	return out
}

type c08Item struct {
	Arg  string // argument for the single invocation
	Path string // world path
}

// walkItems lists, in the walk order of --all, the files a single invocation can address.
func walkItems(sb *Sandbox, cmd string) []c08Item {
	var items []c08Item
	root := sb.Path("crs/regex-assembly")
	_ = filepath.WalkDir(root, func(p string, d fs.DirEntry, err error) error {
		if err != nil || d.IsDir() || filepath.Ext(d.Name()) != ".ra" {
			return nil
		}
		rel, _ := filepath.Rel(sb.W, p)
		base := strings.TrimSuffix(d.Name(), ".ra")
		dir := filepath.Base(filepath.Dir(p))
		isRule := dir == "regex-assembly" && ruleNameRe.MatchString(d.Name())
		switch cmd {
		case "update", "compare", "compare-gh":
			if isRule {
				items = append(items, c08Item{Arg: base, Path: rel})
			}
		default: // format
			if m := ruleNameRe.FindStringSubmatch(d.Name()); isRule && m[1] != "" && atoi(strings.TrimPrefix(m[1], "-chain")) > 255 {
				// a chain number out of range: no argument addresses this file, --all formats it like any other .ra file
			} else if isRule {
				items = append(items, c08Item{Arg: base, Path: rel})
			} else if dir == "include" {
				items = append(items, c08Item{Arg: base, Path: rel})
			}
			// other .ra files (decoys at the top level, exclude files) cannot be addressed singly; --all formats them too
		}
		return nil
	})
	return items
}

func raContents(sb *Sandbox, items []c08Item, extra ...string) map[string]string {
	out := map[string]string{}
	for _, it := range items {
		out[it.Path] = string(sb.MustRead(it.Path))
	}
	for _, e := range extra {
		out[e] = string(sb.MustRead(e))
	}
	return out
}

func diffMaps(a, b map[string]string) []string {
	var out []string
	for k, v := range a {
		if b[k] != v {
			out = append(out, k)
		}
	}
	sort.Strings(out)
	return out
}

func evalC08(sc *Scenario, sim *Sim) ([]Violation, bool, string) {
	var p C08Params
	if err := json.Unmarshal(sc.Params, &p); err != nil {
		machinery("params: %v", err)
	}
	sb := sim.NewSandbox(sc.World)
	defer sb.Close()
	rulesPath := p.RulesPath
	if rulesPath == "" {
		rulesPath = "crs/rules/REQUEST-942-APPLICATION-ATTACK-SQLI.conf"
	}
	items := walkItems(sb, p.Cmd)
	restore := func() {
		sb.Restore(sc.World)
		if p.PreFormat {
			sb.Run(Step{NoFile: p.NoFile, Argv: []string{"regex", "format", "--all"}, Cwd: "crs"})
		}
		for _, i := range p.PreUpdate {
			if i < len(items) {
				sb.Run(Step{NoFile: p.NoFile, Argv: []string{"regex", "update", items[i].Arg}, Cwd: "crs"})
			}
		}
	}
	var viol []Violation
	add := func(oracle, what, msg, detail string) {
		viol = append(viol, Violation{Prop: "C08", Oracle: oracle, Sig: "C08/" + p.Cmd + "/" + oracle + "/" + what + "/" + p.Probe, Msg: msg,
			Detail: detail + "\nworld:" + worldText(sc.World)})
	}
	argvSingle := func(arg string) []string {
		switch p.Cmd {
		case "update":
			return []string{"regex", "update", arg}
		case "compare":
			return []string{"regex", "compare", arg}
		case "compare-gh":
			return []string{"-o", "github", "regex", "compare", arg}
		case "format":
			return []string{"regex", "format", arg}
		default:
			return []string{"regex", "format", "--check", arg}
		}
	}
	argvAll := func() []string {
		switch p.Cmd {
		case "update":
			return []string{"regex", "update", "--all"}
		case "compare":
			return []string{"regex", "compare", "--all"}
		case "compare-gh":
			return []string{"-o", "github", "regex", "compare", "--all"}
		case "format":
			return []string{"regex", "format", "--all"}
		default:
			return []string{"regex", "format", "--check", "--all"}
		}
	}
	planNo := 0
	plan := func() simrt.Plan { planNo++; return p.Plans[planNo%len(p.Plans)] }

	// E: the single invocations in walk order
	restore()
	var exits []int
	var outs [][]byte
	firstFail := -1
	abortsOnFailure := p.Cmd == "update" || p.Cmd == "compare" || p.Cmd == "compare-gh"
	for i, it := range items {
		r := sb.Run(Step{NoFile: p.NoFile, Argv: argvSingle(it.Arg), Cwd: "crs", Plan: plan()})
		exits = append(exits, r.Exit)
		outs = append(outs, r.Stdout)
		hardFail := r.Exit != 0
		if (p.Cmd == "compare" || p.Cmd == "compare-gh") && r.Exit == 1 && !strings.Contains(string(r.Stderr), "FTL") && !strings.Contains(string(r.Stderr), "PNC") &&
			(strings.Contains(string(r.Stdout), "has changed") || strings.Contains(string(r.Stdout), "::")) {
			hardFail = false // a reported difference is a verdict, not a failure
		}
		if hardFail && firstFail < 0 {
			firstFail = i
			if abortsOnFailure {
				break
			}
		}
	}
	diskE := raContents(sb, items, rulesPath)
	subset := items
	if firstFail >= 0 && abortsOnFailure {
		subset = items[:firstFail+1]
	}
	// A: --all
	restore()
	startContents := raContents(sb, items)
	ra := sb.Run(Step{NoFile: p.NoFile, Argv: argvAll(), Cwd: "crs", Plan: plan()})
	diskA := raContents(sb, items, rulesPath)
	switch p.Cmd {
	case "update", "format":
		if d := diffMaps(diskE, diskA); len(d) > 0 {
			add("all-vs-singles", "disk", "`--all` leaves other bytes than the single invocations in walk order: "+strings.Join(d, " "),
				fmt.Sprintf("--all:\n%q\nsingles:\n%q", clip2([]byte(diskA[d[0]]), 1500), clip2([]byte(diskE[d[0]]), 1500)))
		}
		anyFail := firstFail >= 0
		if (ra.Exit != 0) != anyFail {
			add("all-vs-singles", "exit", fmt.Sprintf("`--all` exits %d but the single invocations %v", ra.Exit, exits), clip(ra.Stderr))
		}
	case "compare":
		want := bytes.Join(outs, nil)
		if firstFail >= 0 {
			want = bytes.Join(outs[:firstFail], nil)
		}
		if !bytes.Equal(ra.Stdout, want) {
			add("all-vs-singles", "stdout", "stdout of `compare --all` is not the concatenation of the single outputs in walk order",
				fmt.Sprintf("--all:    %q\nsingles: %q", clip(ra.Stdout), clip(want)))
		}
		if (firstFail >= 0) != (ra.Exit != 0) {
			add("all-vs-singles", "exit", fmt.Sprintf("`compare --all` (text) exits %d; a single invocation failed: %v", ra.Exit, firstFail >= 0), clip(ra.Stderr))
		}
	case "compare-gh":
		anyDiff := false
		for i, e := range exits {
			if e != 0 && i != firstFail {
				anyDiff = true
			}
		}
		wantFail := anyDiff || firstFail >= 0
		if (ra.Exit != 0) != wantFail {
			add("all-vs-singles", "exit", fmt.Sprintf("`-o github compare --all` exits %d but the single invocations %v", ra.Exit, exits), clip(ra.Stdout)+clip(ra.Stderr))
		}
		if firstFail < 0 {
			want := bytes.Join(outs, nil)
			got := ra.Stdout
			if anyDiff {
				want = append(want, []byte("::error::All rules need to be up to date. Please run `crs-toolchain regex update --all`\n")...)
			}
			if !bytes.Equal(got, want) {
				add("all-vs-singles", "stdout", "stdout of `-o github compare --all` differs from the single outputs", fmt.Sprintf("--all:    %q\nsingles: %q", clip(got), clip(want)))
			}
		}
	case "format-check":
		var wantLines, gotLines []string
		for _, o := range outs {
			for _, l := range strings.Split(string(o), "\n") {
				if l != "" {
					wantLines = append(wantLines, l)
				}
			}
		}
		// --all also reports files that cannot be addressed singly (exclude files, top-level decoys); only addressable ones are compared
		addressable := map[string]bool{}
		for _, it := range items {
			addressable[filepath.Base(it.Path)+" not properly formatted"] = true
		}
		for _, l := range strings.Split(string(ra.Stdout), "\n") {
			if l != "" && addressable[l] {
				gotLines = append(gotLines, l)
			}
		}
		sort.Strings(wantLines)
		sort.Strings(gotLines)
		if strings.Join(wantLines, "\n") != strings.Join(gotLines, "\n") {
			add("all-vs-singles", "report", "`format --check --all` reports other files than the single checks", fmt.Sprintf("--all: %q\nsingles: %q", gotLines, wantLines))
		}
		anyFail := false
		for _, e := range exits {
			if e != 0 {
				anyFail = true
			}
		}
		if anyFail && ra.Exit == 0 {
			add("all-vs-singles", "exit", "`format --check --all` exits 0 although a single check fails", "")
		}
		if d := diffMaps(raContents(sb, items), startContents); len(d) > 0 {
			add("all-vs-singles", "disk", "`format --check --all` changed files: "+strings.Join(d, " "), "")
		}
	}
	// B: the single invocations in other orders (restricted to the files processed before an abort)
	if p.Cmd == "update" || p.Cmd == "format" {
		for oi, order := range p.Orders {
			restore()
			for _, idx := range order {
				if idx >= len(subset) {
					continue
				}
				sb.Run(Step{NoFile: p.NoFile, Argv: argvSingle(subset[idx].Arg), Cwd: "crs", Plan: plan()})
			}
			diskB := raContents(sb, items, rulesPath)
			if d := diffMaps(diskE, diskB); len(d) > 0 {
				add("order-of-singles", "disk", fmt.Sprintf("the single invocations in order %v leave other bytes than in walk order: %s", order, strings.Join(d, " ")),
					fmt.Sprintf("this order:\n%q\nwalk order:\n%q", clip2([]byte(diskB[d[0]]), 1500), clip2([]byte(diskE[d[0]]), 1500)))
				break
			}
			_ = oi
		}
	}
	// A': --all under permuted directory listings (only when every file is valid: an abort cuts the run at an order-dependent point by design)
	if firstFail < 0 && (p.Cmd == "update" || p.Cmd == "format" || p.Cmd == "compare-gh") {
		for _, dp := range p.DirPlan {
			restore()
			r := sb.Run(Step{NoFile: p.NoFile, Argv: argvAll(), Cwd: "crs", Plan: dp})
			diskP := raContents(sb, items, rulesPath)
			if d := diffMaps(diskA, diskP); len(d) > 0 {
				add("traversal-order", "disk", "`--all` under a permuted directory listing leaves other bytes: "+strings.Join(d, " "),
					fmt.Sprintf("exit %d, timed out %v\nstderr: %s\npermuted:\n%q\nidentity:\n%q", r.Exit, r.TimedOut, tailOf(r.Stderr, 1200), clip2([]byte(diskP[d[0]]), 3000), clip2([]byte(diskA[d[0]]), 3000)))
				break
			}
			if r.Exit != ra.Exit {
				add("traversal-order", "exit", fmt.Sprintf("`--all` under a permuted directory listing exits %d instead of %d", r.Exit, ra.Exit), "")
				break
			}
		}
	}
	return viol, len(items) >= 2, fmt.Sprintf("%x|%s", sc.World.Hash(), p.Cmd)
}

func snapshotOf(w *World, items []c08Item) map[string]string {
	out := map[string]string{}
	for _, it := range items {
		out[it.Path] = string(w.Files[it.Path].Bytes())
	}
	return out
}

func init() {
	register(&Property{
		ID: "C08", Level: "exploration",
		Rule: "scenario = CRS tree with 2-6 assembly files addressing distinct rule lines of one rules file (chains, !@rx), include files, decoys the walk must skip, programs with blocks, stored expressions, definitions, flags, prefixes and includes, (4%: 48 more data files, every command under a limit of 40 open files with the collector off) plus one cross-file probe (also: one command for both shells in two files, a data file that is a symbolic link, a file name with a chain number beyond 255): a file that reads a stored expression only another file stores (invalid alone), an unclosed block, a definition / flags / prefix present in one file only; command in {update, compare, compare -o github, format, format --check}. Histories from the same initial disk: the single invocations in walk order (stopping after the first failing file where --all aborts by design), `--all`, the single invocations in 3 (quick) / 8 (thorough) seeded other orders, and `--all` under 2 permuted directory listings (WalkDir seam). Oracles: final bytes of the rules file and of every .ra file agree; exit status of --all non-zero iff a single invocation fails; compare's stdout is the concatenation of the single outputs. Non-trivial = at least two addressable files; distinct = distinct (world, command).",
		Gen:  genC08, Eval: evalC08,
		QuickChecks: 450, ThoroughChecks: 6000, Timeout: 20 * time.Second,
		Assumptions: []string{
			"no two assembly files address the same rule line (the statement's precondition)",
			"after a file that fails on its own, update/compare --all stop by design; only files up to and including it are compared",
			"format --all also formats .ra files no single invocation can address (exclude files, top-level decoys); those are outside the comparison",
		},
		RealStub: realStubDefault,
	})
}

func tailOf(b []byte, n int) string {
	if len(b) > n {
		return "..." + string(b[len(b)-n:])
	}
	return string(b)
}
