SIM_NOTE = ("Trusted base: the instrumenter (type-driven rewrite of the scratch copy) and simrt preserve the program's semantics "
            "apart from the choices they take over; the driver's reference models are written from the property statement. "
            "Sampling, not proof: a clean run is evidence for the explored schedules / histories / faults only.")

add("C03", "exploration",
    "Seeded search over map-iteration schedules (the only scheduler inside this single-goroutine program): every command is re-run from the same initial disk under permuted iteration orders at the seamed range-over-map sites, another simulated instant, unrelated environment and a relocated root; exit status, stdout and the final tree must equal the identity-schedule run. Exploration is the right level because the space (programs x permutations) is unbounded and the property only fails when a particular order meets a particular program.",
    SIM_NOTE + " Map iteration inside dependencies is not seamed (audited by ./check selftest with the uninstrumented twin).",
    "deterministic simulation: seeded schedule exploration of map-iteration order, differential against the identity schedule",
    "DESIGN.md section 4, C03")

add("C06", "exploration",
    "Seeded search over (include file, exclude files, suffix pairs) x schedules of the pair-map and include-map iteration; the generated regex is judged against a reference set-difference / suffix-rewrite model on the structure (membership of every word of a finite universe, and byte equality with the program that has the model's result typed in place).",
    SIM_NOTE + " Where the statement picks no winner (competing pairs, duplicates) every reading is accepted.",
    "deterministic simulation: schedule exploration at the pair-map / include-map seams + reference-model oracle over generated histories",
    "DESIGN.md section 4, C06")

add("C07", "exploration",
    "Seeded search over definition graphs x permutations and placements of the definition lines x schedules of the three definition-map iteration sites; stdout/exit of generate must equal those of the program expanded by a reference substitution (which passes through no definition map).",
    SIM_NOTE,
    "deterministic simulation: schedule exploration at the definition-map seams x line permutations, reference substitution model",
    "DESIGN.md section 4, C07")

add("C09", "exploration",
    "Histories check / format / check / format / check / format over one simulated disk, each step under its own schedule; invariants over the recorded history: idempotence (bytes after 2nd and 3rd format), agreement of --check with format, a write monitor (tree snapshot with mtime + traced write calls) for --check, and equality with a reference rendering of the canonical layout.",
    SIM_NOTE,
    "deterministic simulation: model-based checking of operation histories over a simulated disk, with write monitor and per-step schedules",
    "DESIGN.md section 4, C09")

add("C10", "exploration",
    "Histories generate / format / generate over one simulated disk; the regex (or the failure) must be the same before and after, and the white-space-stripped line sequence may only gain the header and lose trailing blank lines. Inputs include token soup on which the formatter's fixed pattern chain and the compiler's pattern set classify lines differently.",
    SIM_NOTE,
    "deterministic simulation: history check generate -> format -> generate on one disk, line-sequence frame condition",
    "DESIGN.md section 4, C10")

add("C11", "exploration",
    "History generate -> update over a simulated disk whose rules file is rendered from a structure that knows every operand's byte span; after update the file must equal the original with exactly the target span replaced by generate's output and every other file's snapshot must be unchanged. Each step runs under its own iteration / directory-order schedule.",
    SIM_NOTE,
    "deterministic simulation: byte-level frame condition on the whole simulated disk around one update, reference span model",
    "DESIGN.md section 4, C11")

add("C12", "exploration",
    "Histories update->compare, update->update and update->edit-one-byte->compare (text and GitHub output, single rule and --all) over one simulated disk; the verdicts and the stored bytes are checked against the structure-derived span, not against the implementation's own line pattern.",
    SIM_NOTE,
    "deterministic simulation: multi-step operation histories over a simulated disk with an injected one-byte corruption of durable state",
    "DESIGN.md section 4, C12")

add("C08", "exploration",
    "Relation between histories from one initial disk: `--all`, the single invocations in walk order, the single invocations in seeded other orders, and `--all` under permuted directory listings (WalkDir seam) must leave the same bytes in the rules file and every .ra file, report the same per-rule lines and agree on failure. Worlds carry cross-file probes (a stored expression only another file stores, an unclosed block, definitions / flags / prefix present in one file only) so that leakage through process-wide state shows as a difference.",
    SIM_NOTE,
    "deterministic simulation: differential histories over a simulated disk + directory-traversal-order schedules",
    "DESIGN.md section 4, C08")

add("C15", "exploration",
    "Whole-sandbox write-set invariant checked after every step of seeded command histories: snapshot diff (content, type, mode, mtime for inspecting commands) and the traced write calls of the I/O seam must lie inside the allow-list the statement gives for that command under the root resolved by the statement's rule. Trees carry dirty decoys of every kind, a nested root and a sibling tree outside the root.",
    SIM_NOTE,
    "deterministic simulation: write monitor (disk snapshots + I/O seam trace) over command histories in controlled process environments",
    "DESIGN.md section 4, C15")

add("C16", "fault_enumeration",
    "Every cell of {fault class} x {position} x {command} from the statement's list is enumerated in every run and instantiated on seeded valid worlds, each with a fault-free control run on the twin world; the faulted run must exit non-zero, print no regex and leave the failing item's target (and for single-target invocations the whole tree) byte-identical. A second tier injects EROFS / ENOSPC on the write of the target through the I/O seam.",
    SIM_NOTE,
    "deterministic simulation: single-fault enumeration (tree faults by mutation of valid worlds, I/O faults through the seam) with fault-free controls",
    "DESIGN.md section 4, C16")

add("C17", "fault_enumeration",
    "The fault is a line at or beyond the scanner's token limit. Every cell of {carrier/command} x {10 lengths, concentrated at 65534..65537} x {first, middle, last} x {final newline yes/no} is enumerated in every run; the command must either fail loudly or be complete (every entry matched by the produced regex, every line present in the rewritten file, the long line byte-identical).",
    SIM_NOTE,
    "deterministic simulation: stream-fault enumeration (scanner overflow induced by content) with a complete-or-loud oracle",
    "DESIGN.md section 4, C17")

add("C18", "exploration",
    "The simulator owns argv, cwd, -d and the tree layout (nested roots, sibling roots, no root) and observes the resolution through the I/O seam trace and the disk: accepted iff inside the statement's grammar, the file read and the rule line rewritten are the ones the statement names, rejected arguments exit non-zero without a write, file argument and stdin agree, and the root used is the statement's nearest-ancestor rule.",
    SIM_NOTE,
    "deterministic simulation: controlled process environment (argv / cwd / -d / tree) with I/O-trace and disk observation against the statement's grammar",
    "DESIGN.md section 4, C18")

add("C13", "exploration",
    "Histories check / renumber / check / renumber over one simulated disk with generated test files whose structure (which line is which test's id / title) the driver knows; reference rendering, idempotence, agreement of --check with the rewrite and a write monitor for --check. Honest note: no schedule or fault decides this property; the simulator contributes the histories, the monitor and replay.",
    SIM_NOTE,
    "deterministic simulation (degenerate, fault-free corner): model-based checking of operation histories over a simulated disk with write monitor",
    "DESIGN.md section 4, C13")

add("C14", "exploration",
    "Sequences of 1-3 invocations with independent accepted versions and years over one simulated disk: after every invocation each file must equal the template rendered with that invocation's values in every marker slot. The property only fails when the markers written by one run are not recognised by the next, i.e. on histories.",
    SIM_NOTE,
    "deterministic simulation: durable-state histories (write by run i, read by run i+1) against a slot-template reference model",
    "DESIGN.md section 4, C14")

add("C04", "exploration",
    "Configuration / fault space of regex-assembly/toolchain.yaml (complete, partial, padded, empty, torn, wrong-typed value, other file via -f, absent, open failing with EACCES / ELOOP through the I/O seam, a directory in its place) x cmdline blocks; the generated regex is bounded on both sides by two reference languages built from the statement (positive samples must match, negative samples outside the upper language must not) and every failed configuration must behave exactly like the explicit empty configuration.",
    SIM_NOTE + " Only the configuration / fault dimension is simulation proper; the word x variant dimension is generated-input checking (DESIGN.md says so).",
    "deterministic simulation: configuration-state and I/O-fault exploration with a two-sided reference-language oracle",
    "DESIGN.md section 4, C04")

add("C20", "exploration",
    "The whole self-update path (repository code, go-selfupdate, go-github, net/http above RoundTripper, archive handling, replacement of the executable) runs for real against a simulated GitHub: a seeded release catalogue rendered into canned routes plus fault sequences on individual requests (403, 404, 500, transport error, truncated body, bit flip). Safety invariant on the executable's bytes: a change is only ever the payload of a strictly newer, platform-matching asset whose bytes as received carry the digest recorded in that release's checksum file.",
    SIM_NOTE + " GitHub and everything below http.RoundTripper are stubs.",
    "deterministic simulation: simulated network (in-memory service model + per-request fault sequences) with a safety invariant on durable state",
    "DESIGN.md section 4, C20")
