#!/bin/bash
# usage: tools/seeded.sh <seeded-dir> [ID] [tier]
# Confirms a seeded change (patch.diff + demo) in a scratch copy of /repo: the patch applies, the repository's test
# suite still passes, the demonstration fails with the change and passes without it; then runs the property's check
# against the changed copy (VERIF_REPO) and reports whether it was caught. /repo itself is never modified.
set -u
S="$(readlink -f "$1")"; ID="${2:-$(python3 -c "import json,sys;print(json.load(open('$S/meta.json'))['property'])")}"; TIER="${3:-quick}"
export GOFLAGS=-mod=mod GOPROXY=off GOSUMDB=off GOTOOLCHAIN=local
D="$(mktemp -d /var/tmp/seeded.XXXXXX)"; trap 'rm -rf "$D"' EXIT
mkdir "$D/clean" "$D/mut"
(cd /repo && git ls-files | rsync -a --files-from=- ./ "$D/clean/" && git ls-files | rsync -a --files-from=- ./ "$D/mut/")
for x in clean mut; do (cd "$D/$x" && git init -q . && git add -A >/dev/null && git -c user.email=a@b -c user.name=x commit -qm base); done
(cd "$D/mut" && git apply "$S/patch.diff") || { echo "RESULT patch-does-not-apply"; exit 3; }
echo "--- repository test suite with the change"
/verif/tools/baseline.sh "$D/mut" | tail -3; T=${PIPESTATUS[0]}
rundemo() { # $1 = tree
  if [ -f "$S/demo.sh" ]; then (cd "$1" && timeout 600 bash "$S/demo.sh" "$1" >/dev/null 2>&1); return $?
  else
    pkg=$(python3 -c "import json;m=json.load(open('$S/meta.json'));print(m.get('demo_package','internal/updater'))")
    cp "$S/demo_test.go" "$1/$pkg/zz_demo_test.go"; (cd "$1" && timeout 600 go test -vet=off -count=1 -run 'TestSeeded|TestDemo' "./$pkg/" >/dev/null 2>&1); r=$?; rm -f "$1/$pkg/zz_demo_test.go"; return $r
  fi; }
rundemo "$D/clean"; C=$?; rundemo "$D/mut"; M=$?
echo "--- demo: clean tree exit $C (want 0), changed tree exit $M (want != 0), tests exit $T (want 0)"
echo "--- check $ID $TIER against the changed tree"
VERIF_REPO="$D/mut" /verif/check "$ID" "$TIER" 2>&1 | grep -E "^VIOLATION|signature|quick:|thorough:|trouble" | cut -c1-300 | head -12
R=${PIPESTATUS[0]}
echo "RESULT tests=$T demo_clean=$C demo_mut=$M check_exit=$R"
