package main

import (
	"archive/tar"
	"archive/zip"
	"bytes"
	"compress/gzip"
	"crypto/sha256"
	"encoding/base64"
	"encoding/hex"
	"encoding/json"
	"fmt"
	"io"
	"os"
	"path/filepath"
	"regexp"
	"runtime"
	"strconv"
	"strings"
	"time"

	"pgregory.net/rapid"

	"crssim/simrt"
)

// C20 - self-update installs only a newer, checksum-verified release for this platform.
// The network is the simulator's: an in-memory GitHub model rendered into canned
// routes, plus fault sequences on individual requests.

type CatAsset struct {
	ID      int    `json:"id"`
	Name    string `json:"name"`
	Kind    string `json:"kind"`              // raw | tar.gz | zip | checksums | other
	Payload string `json:"payload,omitempty"` // bytes of the executable inside (unique per asset)
	Corrupt bool   `json:"corrupt,omitempty"` // archive bytes are garbage
	NoExe   bool   `json:"no_exe,omitempty"`  // a well-formed archive that does not contain the executable
	// Checksums (kind = checksums): what the file records
	Sums string `json:"sums,omitempty"`
	// ServeFlipped: the bytes served differ in one bit from the bytes the checksum file was computed from
	ServeFlipped bool `json:"serve_flipped,omitempty"`
}

type CatRelease struct {
	ID         int        `json:"id"`
	Tag        string     `json:"tag"`
	Draft      bool       `json:"draft,omitempty"`
	Prerelease bool       `json:"prerelease,omitempty"`
	Assets     []CatAsset `json:"assets"`
}

type C20Params struct {
	Running  string       `json:"running_version"`
	Releases []CatRelease `json:"releases"`
	// Withdrawn: tags of releases that disappear from the listing after its first request (a release pulled between two requests of one run)
	Withdrawn []string         `json:"withdrawn,omitempty"`
	Faults    []simrt.NetFault `json:"faults,omitempty"`
	Token     bool             `json:"github_token"`
	// Retry: when the first run left the executable alone, the command is run once more in the same environment
	// (same HOME and TMPDIR), against the same catalogue and without faults
	Retry bool       `json:"retry,omitempty"`
	Plan  simrt.Plan `json:"plan"`
}

var platSuffix = runtime.GOOS + "_" + runtime.GOARCH

func buildArchive(a *CatAsset, exeName string) []byte {
	if a.Corrupt {
		return []byte("this is not an archive " + a.Payload)
	}
	switch a.Kind {
	case "raw":
		return []byte(a.Payload)
	case "tar.gz":
		var buf bytes.Buffer
		gz := gzip.NewWriter(&buf)
		tw := tar.NewWriter(gz)
		readme := []byte("readme")
		_ = tw.WriteHeader(&tar.Header{Name: "README.md", Mode: 0o644, Size: int64(len(readme))})
		_, _ = tw.Write(readme)
		if !a.NoExe {
			_ = tw.WriteHeader(&tar.Header{Name: exeName, Mode: 0o755, Size: int64(len(a.Payload))})
			_, _ = tw.Write([]byte(a.Payload))
		}
		_ = tw.Close()
		_ = gz.Close()
		return buf.Bytes()
	case "zip":
		var buf bytes.Buffer
		zw := zip.NewWriter(&buf)
		f, _ := zw.Create(exeName)
		_, _ = io.WriteString(f, a.Payload)
		_ = zw.Close()
		return buf.Bytes()
	case "checksums":
		return []byte(a.Sums)
	}
	return []byte("other asset " + a.Name)
}

func sha256hex(b []byte) string {
	s := sha256.Sum256(b)
	return hex.EncodeToString(s[:])
}

func flipBit(b []byte) []byte {
	c := append([]byte{}, b...)
	if len(c) > 0 {
		c[len(c)/2] ^= 0x01
	}
	return c
}

// renderCatalogue turns the model into routes; served[id] is what the network serves for an asset.
func renderCatalogue2(rels []CatRelease, withdrawn []string) (routes []simrt.Route, served map[int][]byte) {
	routes, served = renderCatalogue(rels)
	if len(withdrawn) == 0 {
		return
	}
	var later []CatRelease
	for _, r := range rels {
		gone := false
		for _, w := range withdrawn {
			if r.Tag == w {
				gone = true
			}
		}
		if !gone {
			later = append(later, r)
		}
	}
	lr, _ := renderCatalogue(later)
	listingURL := "https://api.github.com/repos/coreruleset/crs-toolchain/releases"
	for i := range routes {
		if routes[i].URL == listingURL {
			routes[i].UntilNth = 1
		}
	}
	for _, r := range lr {
		if r.URL == listingURL {
			r.FromNth = 2
			routes = append(routes, r)
		}
	}
	return
}

func renderCatalogue(rels []CatRelease) (routes []simrt.Route, served map[int][]byte) {
	served = map[int][]byte{}
	type jAsset struct {
		ID   int    `json:"id"`
		Name string `json:"name"`
		Size int    `json:"size"`
		URL  string `json:"url"`
		BURL string `json:"browser_download_url"`
	}
	type jRel struct {
		ID         int      `json:"id"`
		Tag        string   `json:"tag_name"`
		Name       string   `json:"name"`
		Draft      bool     `json:"draft"`
		Prerelease bool     `json:"prerelease"`
		HTMLURL    string   `json:"html_url"`
		Published  string   `json:"published_at"`
		Body       string   `json:"body"`
		Assets     []jAsset `json:"assets"`
	}
	var out []jRel
	for _, r := range rels {
		jr := jRel{ID: r.ID, Tag: r.Tag, Name: r.Tag, Draft: r.Draft, Prerelease: r.Prerelease,
			HTMLURL: "https://github.com/coreruleset/crs-toolchain/releases/tag/" + r.Tag, Published: "2026-01-01T00:00:00Z", Body: "notes"}
		for i := range r.Assets {
			a := &r.Assets[i]
			body := buildArchive(a, "crs-toolchain")
			if a.ServeFlipped {
				body = flipBit(body)
			}
			served[a.ID] = body
			api := fmt.Sprintf("https://api.github.com/repos/coreruleset/crs-toolchain/releases/assets/%d", a.ID)
			burl := fmt.Sprintf("https://github.com/coreruleset/crs-toolchain/releases/download/%s/%s", r.Tag, a.Name)
			jr.Assets = append(jr.Assets, jAsset{ID: a.ID, Name: a.Name, Size: len(body), URL: api, BURL: burl})
			b64 := base64.StdEncoding.EncodeToString(body)
			hdr := map[string]string{"Content-Type": "application/octet-stream"}
			routes = append(routes, simrt.Route{URL: api, Status: 200, Header: hdr, BodyB64: b64}, simrt.Route{URL: burl, Status: 200, Header: hdr, BodyB64: b64})
		}
		out = append(out, jr)
	}
	if out == nil {
		out = []jRel{}
	}
	listing, _ := json.Marshal(out)
	routes = append(routes, simrt.Route{URL: "https://api.github.com/repos/coreruleset/crs-toolchain/releases", Status: 200,
		Header:  map[string]string{"Content-Type": "application/json; charset=utf-8", "X-RateLimit-Limit": "60", "X-RateLimit-Remaining": "59"},
		BodyB64: base64.StdEncoding.EncodeToString(listing)})
	return
}

var c20Tags = []string{"v1.2.2", "v1.2.3", "v1.2.4", "v2.0.0", "v10.0.0", "1.3.0", "v1.3.0-rc1", "v0.9.0", "nightly", "v1.2.3-dev"}

func genC20(t *rapid.T, tier string) (*World, any) {
	w := NewWorld()
	w.Dirs = append(w.Dirs, "bin", "work/regex-assembly")
	p := &C20Params{}
	p.Running = pick(t, []string{"v1.2.3", "1.2.3", "v0.0.0-dev", "v1.2.3-dev", "dev", "", "v9.9.9", "v1.2"}, "running")
	p.Token = chance(t, 15, "token")
	nrel := drawInt(t, 0, 5, "nrel")
	id := 100
	usedTag := map[string]bool{}
	for i := 0; i < nrel; i++ {
		tag := pick(t, c20Tags, "tag")
		if usedTag[tag] {
			continue
		}
		usedTag[tag] = true
		id++
		r := CatRelease{ID: id, Tag: tag}
		r.Prerelease = strings.Contains(tag, "-rc") || chance(t, 5, "pre")
		r.Draft = chance(t, 6, "draft")
		ver := strings.TrimPrefix(tag, "v")
		// assets
		var sums []string
		shape := drawInt(t, 0, 9, "shape")
		mk := func(name, kind string) *CatAsset {
			id++
			a := CatAsset{ID: id, Name: name, Kind: kind, Payload: fmt.Sprintf("#!payload of asset %d (%s) in release %s\n%s", id, name, tag, strings.Repeat("x", drawInt(t, 0, 40, "pad")))}
			r.Assets = append(r.Assets, a)
			return &r.Assets[len(r.Assets)-1]
		}
		// assets for other platforms are always there
		for _, other := range []string{"darwin_arm64", "windows_amd64", "linux_arm64", platSuffix + "p32", runtime.GOOS + "_386", runtime.GOOS + "_arm"} {
			if chance(t, 60, "other") {
				a := mk("crs-toolchain_"+ver+"_"+other+".tar.gz", "tar.gz")
				sums = append(sums, sha256hex(buildArchive(a, "crs-toolchain"))+"  "+a.Name)
			}
		}
		var mine *CatAsset
		if shape != 0 { // shape 0: only other platforms
			kind := pick(t, []string{"tar.gz", "tar.gz", "zip", "raw"}, "kind")
			name := "crs-toolchain_" + ver + "_" + platSuffix
			if kind != "raw" {
				name += "." + kind
			}
			mine = mk(name, kind)
			if kind == "tar.gz" && chance(t, 10, "noexe") {
				mine.NoExe = true // packaged incorrectly: nothing to install from it
			}
			if kind != "raw" && chance(t, 8, "corrupt") {
				mine.Corrupt = true // for a raw binary every byte string is "the binary"; only archives can be corrupt
			}
			// near-miss names that must not be taken for this platform's asset (release tools list them in the checksum file too)
			if chance(t, 25, "nearmiss") {
				n1 := mk("crs-toolchain_"+ver+"_"+platSuffix+".tar.gz.sbom.json", "other")
				sums = append(sums, sha256hex(buildArchive(n1, "crs-toolchain"))+"  "+n1.Name)
				n2 := mk(platSuffix+"_crs-toolchain_"+ver+".txt", "other")
				sums = append(sums, sha256hex(buildArchive(n2, "crs-toolchain"))+"  "+n2.Name)
				if drawBool(t, "nearmiss-first") {
					// the near misses come first in the asset list
					k := len(r.Assets)
					r.Assets[k-3], r.Assets[k-2], r.Assets[k-1] = r.Assets[k-2], r.Assets[k-1], r.Assets[k-3]
					mine = &r.Assets[k-1]
				}
			}
		}
		// the checksum file
		sumStyle := drawInt(t, 0, 9, "sums")
		if mine != nil {
			good := sha256hex(buildArchive(mine, "crs-toolchain")) + "  " + mine.Name
			switch sumStyle {
			case 0: // no checksum file at all
				sums = nil
			case 1: // checksum file does not list this asset
			case 2: // wrong digest
				sums = append(sums, sha256hex([]byte("something else"))+"  "+mine.Name)
			case 3: // digest of this asset recorded under another name only
				sums = append(sums, strings.Replace(good, mine.Name, "crs-toolchain_"+ver+"_plan9_amd64.tar.gz", 1))
			case 5: // the digest of the bytes served is recorded for a file whose name merely ends in the asset's name; the asset's own line says something else
				sums = append(sums, sha256hex(buildArchive(mine, "crs-toolchain"))+"  bundle_"+mine.Name)
				sums = append(sums, sha256hex([]byte("not this"))+"  "+mine.Name)
			case 4: // bytes served differ from what was summed
				sums = append(sums, good)
				mine.ServeFlipped = true
			default:
				sums = append(sums, good)
			}
		} else if sumStyle == 0 {
			sums = nil
		}
		if sums != nil || (mine == nil && sumStyle != 0) {
			id++
			r.Assets = append(r.Assets, CatAsset{ID: id, Name: "crs-toolchain-checksums.txt", Kind: "checksums", Sums: strings.Join(sums, "\n") + "\n"})
		}
		p.Releases = append(p.Releases, r)
	}
	if len(p.Releases) > 1 && chance(t, 10, "withdraw") {
		p.Withdrawn = []string{p.Releases[drawInt(t, 0, len(p.Releases)-1, "withdrawn")].Tag}
	}
	// fault sequence: at most two, on the listing (request 1), the first download (2) or the second download (3)
	nf := drawInt(t, 0, 2, "nfaults")
	if chance(t, 55, "nofaults") {
		nf = 0
	}
	usedN := map[int]bool{}
	for i := 0; i < nf; i++ {
		n := drawInt(t, 1, 3, "fault-at")
		if usedN[n] {
			continue
		}
		usedN[n] = true
		p.Faults = append(p.Faults, simrt.NetFault{Nth: n, Kind: pick(t, []string{"http403", "http404", "http500", "transport", "cut", "flip"}, "fault-kind")})
	}
	p.Plan = drawPlan(t, "plan", false)
	p.Retry = chance(t, 35, "retry")
	if chance(t, 20, "backup") {
		// what an earlier update or the user left next to the executable
		w.Put("bin/crs-toolchain.old", "#!an older executable kept as a backup\n")
		w.Put("bin/.crs-toolchain.old", "#!a hidden leftover\n")
		w.Put("bin/crs-toolchain.new", "#!a half-written newer one\n")
	}
	return w, p
}

// ---- a small semantic-version order, written from semver.org (not from the library) ----

// two-component versions (1.2) are read as 1.2.0, as lenient tools do; they are comparable
var semRe = regexp.MustCompile(`^v?([0-9]+)\.([0-9]+)(?:\.([0-9]+))?(?:-([0-9A-Za-z.-]+))?(?:\+[0-9A-Za-z.-]+)?$`)

type semv struct {
	n   [3]int
	pre []string
	ok  bool
}

func parseSem(s string) semv {
	m := semRe.FindStringSubmatch(s)
	if m == nil {
		return semv{}
	}
	v := semv{ok: true}
	for i := 0; i < 3; i++ {
		v.n[i], _ = strconv.Atoi(m[i+1])
	}
	if m[4] != "" {
		v.pre = strings.Split(m[4], ".")
	}
	return v
}

func semLess(a, b semv) bool {
	for i := 0; i < 3; i++ {
		if a.n[i] != b.n[i] {
			return a.n[i] < b.n[i]
		}
	}
	if len(a.pre) == 0 || len(b.pre) == 0 {
		return len(a.pre) > 0 && len(b.pre) == 0
	}
	for i := 0; i < len(a.pre) && i < len(b.pre); i++ {
		x, y := a.pre[i], b.pre[i]
		xi, xe := strconv.Atoi(x)
		yi, ye := strconv.Atoi(y)
		switch {
		case xe == nil && ye == nil:
			if xi != yi {
				return xi < yi
			}
		case xe == nil:
			return true
		case ye == nil:
			return false
		default:
			if x != y {
				return x < y
			}
		}
	}
	return len(a.pre) < len(b.pre)
}

var cleanupPaths []string

func cleanupAll() {
	for _, p := range cleanupPaths {
		_ = os.Remove(p)
	}
}

func (sim *Sim) exeMaster() string {
	// one private copy of the instrumented binary per driver process on the sandbox file system; sandboxes hard-link it
	p := filepath.Join(shmBase, fmt.Sprintf("crssim-exe-%d", os.Getpid()))
	if _, err := os.Stat(p); err == nil {
		return p
	}
	data, err := os.ReadFile(filepath.Join(sim.BuildDir, "crs-sim"))
	if err != nil {
		machinery("read crs-sim: %v", err)
	}
	if err := os.WriteFile(p, data, 0o755); err != nil {
		machinery("write exe master: %v", err)
	}
	cleanupPaths = append(cleanupPaths, p)
	return p
}

func evalC20(sc *Scenario, sim *Sim) ([]Violation, bool, string) {
	var p C20Params
	if err := json.Unmarshal(sc.Params, &p); err != nil {
		machinery("params: %v", err)
	}
	sb := sim.NewSandbox(sc.World)
	defer sb.Close()
	exe := "bin/crs-toolchain"
	master := sim.exeMaster()
	if err := os.Link(master, sb.Path(exe)); err != nil {
		data, _ := os.ReadFile(master)
		if err := os.WriteFile(sb.Path(exe), data, 0o755); err != nil {
			machinery("install exe: %v", err)
		}
	}
	routes, served := renderCatalogue2(p.Releases, p.Withdrawn)
	plan := p.Plan
	st := Step{Argv: []string{"self-update"}, Cwd: "work", Plan: plan, ExePath: exe, Version: p.Running}
	if p.Running == "" {
		st.Version = ""
		st.Env = map[string]string{"CRS_SIM_VERSION": ""}
		st.NoVer = true
	}
	if p.Token {
		if st.Env == nil {
			st.Env = map[string]string{}
		}
		st.Env["GITHUB_TOKEN"] = "ghp_simulated"
	}
	var viol []Violation
	var origTags []string
	for ri := range p.Releases {
		origTags = append(origTags, p.Releases[ri].Tag)
	}
	attempts := 1
	if p.Retry {
		attempts = 2
	}
	key := ""
	for attempt := 0; attempt < attempts; attempt++ {
		for ri := range p.Releases {
			p.Releases[ri].Tag = origTags[ri]
		}
		faults := p.Faults
		if attempt > 0 {
			faults = nil
			sim.Stats.probe("second-attempt")
		}
		plan.Net = &simrt.NetPlan{Routes: routes, Faults: faults}
		st.Plan = plan
		var changed bool
		viol, changed, key = c20Judge(sb, sim, &p, st, exe, routes, served, faults, attempt, viol)
		if changed || len(viol) > 0 {
			break
		}
	}
	return viol, len(p.Releases) > 0, key + string(sc.Params)
}

// c20Judge runs self-update once and judges what it did to the executable.
func c20Judge(sb *Sandbox, sim *Sim, p *C20Params, st Step, exe string, routes []simrt.Route, served map[int][]byte, faults []simrt.NetFault, attempt int, viol []Violation) ([]Violation, bool, string) {
	before, _ := os.ReadFile(sb.Path(exe))
	r := sb.Run(st)
	after, _ := os.ReadFile(sb.Path(exe))
	add := func(what, msg, detail string) {
		if attempt > 0 {
			what += "/second-run-in-the-same-environment"
			msg = "second run (same HOME and TMPDIR, same catalogue, no faults) after a run that installed nothing: " + msg
		}
		cat, _ := json.MarshalIndent(p.Releases, "", " ")
		var reqs []string
		for _, e := range r.Trace {
			if e.Kind == "NET" {
				reqs = append(reqs, strings.Join(e.Fields, " "))
			}
		}
		viol = append(viol, Violation{Prop: "C20", Oracle: "install-safety", Sig: "C20/install-safety/" + what, Msg: msg,
			Detail: detail + fmt.Sprintf("\nrunning version: %q, exit %d\nrequests: %s\nfaults: %+v\nstderr: %s\ncatalogue: %s", p.Running, r.Exit, strings.Join(reqs, " | "), faults, clip(r.Stderr), clip2(cat, 3000))})
	}
	faultFired := false
	for _, e := range r.Trace {
		if e.Kind == "NET" && len(e.Fields) >= 3 && strings.HasPrefix(e.Fields[2], "FAULT:") {
			faultFired = true
		}
	}
	// which asset downloads had a bit flipped in transit?
	flippedInTransit := map[int]bool{}
	for _, e := range r.Trace {
		if e.Kind == "NET" && len(e.Fields) >= 3 && e.Fields[2] == "FAULT:flip" {
			for ri := range p.Releases {
				for ai := range p.Releases[ri].Assets {
					a := &p.Releases[ri].Assets[ai]
					if strings.HasSuffix(e.Fields[1], fmt.Sprintf("/assets/%d", a.ID)) || strings.HasSuffix(e.Fields[1], "/"+p.Releases[ri].Tag+"/"+a.Name) {
						flippedInTransit[a.ID] = !flippedInTransit[a.ID]
					}
				}
			}
		}
	}
	// the listing itself may have arrived with a flipped bit and still be well-formed JSON: what the client was told
	// about a release (its tag) is then what counts, the catalogue model is corrected accordingly
	const listingURL = "https://api.github.com/repos/coreruleset/crs-toolchain/releases"
	listingFlips := 0
	for _, e := range r.Trace {
		if e.Kind == "NET" && len(e.Fields) >= 3 && e.Fields[2] == "FAULT:flip" && e.Fields[1] == listingURL {
			listingFlips++
		}
	}
	if listingFlips%2 == 1 {
		for _, rt := range routes {
			if rt.URL != listingURL || rt.FromNth > 1 {
				continue
			}
			body, _ := base64.StdEncoding.DecodeString(rt.BodyB64)
			var got []struct {
				ID  int    `json:"id"`
				Tag string `json:"tag_name"`
			}
			if json.Unmarshal(flipBit(body), &got) == nil {
				for _, g := range got {
					for ri := range p.Releases {
						if p.Releases[ri].ID == g.ID && p.Releases[ri].Tag != g.Tag {
							sim.Stats.probe("listing-flip-changed-a-tag")
							p.Releases[ri].Tag = g.Tag
						}
					}
				}
			}
			break
		}
	}
	run := parseSem(p.Running)
	// which assets would be a legitimate installation?
	type cand struct {
		rel   *CatRelease
		asset *CatAsset
	}
	legit := map[string]cand{} // payload -> candidate
	anyNewerForPlatform := false
	for ri := range p.Releases {
		rel := &p.Releases[ri]
		tag := parseSem(rel.Tag)
		if !tag.ok {
			continue
		}
		newer := !run.ok || semLess(run, tag)
		if !newer {
			continue
		}
		var sums string
		for ai := range rel.Assets {
			if rel.Assets[ai].Kind == "checksums" {
				sums = string(served[rel.Assets[ai].ID])
				if flippedInTransit[rel.Assets[ai].ID] {
					sums = string(flipBit(served[rel.Assets[ai].ID]))
				}
			}
		}
		for ai := range rel.Assets {
			a := &rel.Assets[ai]
			if a.Kind != "raw" && a.Kind != "tar.gz" && a.Kind != "zip" {
				continue
			}
			name := strings.ToLower(a.Name)
			forPlatform := false
			for _, ext := range []string{"", ".tar.gz", ".zip"} {
				if strings.HasSuffix(name, platSuffix+ext) {
					forPlatform = true
				}
			}
			if !forPlatform {
				continue
			}
			if !rel.Draft && !rel.Prerelease {
				anyNewerForPlatform = true // drafts and pre-releases are not judged: the statement says "only", not "always"
			}
			// the bytes served for the asset must carry the digest recorded for its name in the release's checksum file as served;
			// "as served" includes what the network did to them on the way (a bit flip in transit)
			received := served[a.ID]
			if flippedInTransit[a.ID] {
				received = flipBit(received)
			}
			digest := sha256hex(received)
			recorded := false
			for _, line := range strings.Split(sums, "\n") {
				parts := strings.SplitN(line, "  ", 2)
				if len(parts) == 2 && parts[1] == a.Name && parts[0] == digest {
					recorded = true
				}
			}
			if recorded && !a.Corrupt && !a.NoExe {
				if a.Kind == "raw" {
					legit[string(received)] = cand{rel, a}
				} else if bytes.Equal(received, buildArchive(a, "crs-toolchain")) {
					legit[a.Payload] = cand{rel, a}
				}
			}
		}
	}
	changed := !bytes.Equal(before, after)
	if changed {
		sim.Stats.probe("installed")
		c, ok := legit[string(after)]
		switch {
		case !ok:
			// classify what was installed
			what := "unknown-bytes"
			for ri := range p.Releases {
				for ai := range p.Releases[ri].Assets {
					a := &p.Releases[ri].Assets[ai]
					if a.Payload != "" && a.Payload == string(after) {
						tag := parseSem(p.Releases[ri].Tag)
						switch {
						case run.ok && tag.ok && !semLess(run, tag):
							what = "not-newer"
						case !strings.Contains(strings.ToLower(a.Name), platSuffix):
							what = "other-platform"
						default:
							what = "checksum-not-verified"
						}
					}
				}
			}
			if len(after) == 0 {
				what = "executable-emptied"
			}
			add(what, "the executable was replaced by bytes that are not a newer, checksum-verified asset for this platform ("+what+")", fmt.Sprintf("installed bytes start with: %q", clip2(after, 120)))
		case faultFired:
			// a flipped or cut body can never carry the recorded digest
			_ = c
		}
		if r.Exit != 0 {
			add("replaced-but-failed", fmt.Sprintf("the executable was replaced although the command failed (exit %d)", r.Exit), "")
		}
	} else {
		sim.Stats.probe("unchanged")
		if r.Exit == 0 && len(legit) == 0 && anyNewerForPlatform && !faultFired {
			// a newer release for this platform exists but cannot be verified: that is a failure and must be reported
			add("unverifiable-but-exit0", "a newer release for this platform exists but its checksum is missing or does not match; the executable was left alone but the command exits 0", "")
		}
		if r.Exit == 0 && faultFired {
			// a failed request on the way must be reported, unless nothing newer was on offer anyway
			if anyNewerForPlatform && len(legit) > 0 {
				sim.Stats.probe("fault-masked-update")
			}
		}
		if len(legit) > 0 && !faultFired && r.Exit == 0 {
			sim.Stats.probe("available-update-not-installed")
		}
	}
	if len(legit) > 0 && changed {
		sim.Stats.probe("legit-install")
	}
	// "a development build without a comparable version counts as older": the comparison itself must not kill the process
	if !run.ok && bytes.Contains(r.Stderr, []byte("panic:")) {
		add("non-comparable-version-panics", fmt.Sprintf("running version %q has no comparable version and must count as older, but the command dies from a runtime panic", p.Running), "")
	}
	// leftovers next to the executable do not matter; files elsewhere must not appear
	key := fmt.Sprintf("%s|%d|%v|%v", p.Running, len(p.Releases), p.Faults, changed)
	return viol, changed, key
}

func init() {
	register(&Property{
		ID: "C20", Level: "exploration",
		Rule: "scenario = running version in {v1.2.3, 1.2.3, v0.0.0-dev, v1.2.3-dev, dev, empty, v9.9.9, v1.2} x release catalogue of 0-5 releases (tags below / equal / above, numeric vs lexical order, no v prefix, pre-release, draft, non-semver tag) whose assets are drawn per release: other platforms only (other OS, other architecture, the 32-bit relatives <os>_386 / <os>_arm); this platform as tar.gz / zip / raw binary; near-miss names; corrupt archive; checksum file absent / not listing the asset / wrong digest / digest under another name / bytes served flipped after summing; every payload unique so an installed file is attributable to one asset x fault sequence of 0-2 faults (HTTP 403 rate limit, 404, 500, transport error, body cut short, body bit-flipped) placed on the listing, the first or the second download x optional GITHUB_TOKEN x a schedule x (35%) a second run of the command in the same HOME / TMPDIR, against the same catalogue without faults, when the first run installed nothing. The child runs as a private hard link bin/crs-toolchain so that os.Executable() is a file the simulator owns. Oracle (safety): if the executable's bytes changed they are the payload of an asset of a catalogue release with version strictly above the running one (non-comparable running version counts as older), whose name ends in this OS/arch and whose bytes as served carry the SHA-256 recorded for its name in that release's checksum file as served, and the exit status is 0; a newer-but-unverifiable release must not end in exit 0. Whether an available update is installed is recorded as a probe, not judged. Non-trivial = non-empty catalogue; distinct = distinct parameter sets.",
		Gen:  genC20, Eval: evalC20,
		QuickChecks: 700, ThoroughChecks: 15000, Timeout: 30 * time.Second,
		Assumptions: []string{
			"the version order is semver.org's, implemented in the driver independently of the library",
			"drafts and pre-releases are not judged (the statement says 'only', not 'always')",
		},
		RealStub: []string{
			"real: the repository's updater and commands, go-selfupdate, go-github, net/http above http.RoundTripper, archive/tar, compress/gzip, archive/zip, the executable replacement on the file system, os.Executable()",
			"stub: GitHub (in-memory catalogue rendered into canned routes inside the child), everything below RoundTripper (no socket, no DNS), map iteration order, clock, version string injection",
		},
	})
}
