package simrt

import (
	"io"
	"os"
)

type stdinReader struct {
	n int
}

// Stdin is the seam for os.Stdin where it is used as an io.Reader: the plan can
// make every read short (never empty), as a pipe that is fed in instalments does.
func Stdin() io.Reader { return &stdinSingleton }

var stdinSingleton stdinReader

func (s *stdinReader) Read(p []byte) (int, error) {
	if len(plan.StdinChunks) > 0 && len(p) > 0 {
		c := plan.StdinChunks[s.n%len(plan.StdinChunks)]
		s.n++
		if c > 0 && c < len(p) {
			p = p[:c]
		}
	}
	n, err := os.Stdin.Read(p)
	if len(plan.StdinChunks) > 0 && s.n <= 32 {
		trace("IO", "stdin-read", "", n) // the first reads only, a chunk size of 1 would flood the trace
	}
	return n, err
}
