package main

import (
	"bytes"
	"encoding/json"
	"fmt"
	"path/filepath"
	"sort"
	"strings"
	"time"

	"pgregory.net/rapid"

	"crssim/simrt"
)

// C03 - same files and configuration always give byte-identical output.
// Deciding observation: the effect of a schedule the simulator chose.

type C03Cmd struct {
	Name      string   `json:"name"`
	Argv      []string `json:"argv"`
	StdinFile string   `json:"stdin_file,omitempty"` // feed this world file on stdin
}

type C03Alt struct {
	Plan  simrt.Plan        `json:"plan"`
	Env   map[string]string `json:"env,omitempty"`
	Reloc string            `json:"reloc,omitempty"` // run with the tree under this extra parent directory
}

type C03Params struct {
	Cmds []C03Cmd `json:"cmds"`
	Alts []C03Alt `json:"alts"`
	// Sweep: additionally try, for every map-range site that saw an event with
	// >= 2 elements, the reverse order and the rotations at that site alone.
	Sweep bool `json:"sweep"`
	// Plain: also run the uninstrumented twin (fidelity of the seams, never deciding; only together with Sweep)
	Plain bool `json:"plain"`
	// Race: also run every command once under the race detector (goroutines are outside the seams; two of them touching
	// one variable without synchronisation is a source of nondeterminism that no schedule of the simulator would show)
	Race bool `json:"race,omitempty"`
}

func (w *World) WithPrefix(prefix string) *World {
	if prefix == "" {
		return w
	}
	c := NewWorld()
	for k, v := range w.Files {
		c.Files[prefix+"/"+k] = v
	}
	for _, d := range w.Dirs {
		c.Dirs = append(c.Dirs, prefix+"/"+d)
	}
	return c
}

func stripPrefix(s Snapshot, prefix string) Snapshot {
	if prefix == "" {
		return s
	}
	out := Snapshot{}
	for k, v := range s {
		if strings.HasPrefix(k, prefix+"/") {
			out[strings.TrimPrefix(k, prefix+"/")] = v
		}
	}
	return out
}

// genCRSWorld draws a CRS tree with assembly files, include / exclude files,
// a rules file and optionally a toolchain.yaml. Returns the rule ids that
// have an assembly file.
type crsWorld struct {
	W        *World
	Targets  []string // e.g. "942100", "942110-chain1"
	RuleFile *RuleFile
}

func drawCRSWorld(t *rapid.T, label string, nTargets int, opts ProgOpts, rulesOpts RulesOpts) *crsWorld {
	w := NewWorld()
	cw := &crsWorld{W: w}
	// include / exclude files
	endings := []string{"s", "es", "t", "x", "tes"}
	nInc := drawInt(t, 1, 2, label+"-ninc")
	var incs, excs []string
	var incWords [][]string
	for i := 0; i < nInc; i++ {
		name := fmt.Sprintf("inc%d", i+1)
		words := drawWordList(t, 1, 6, label+"-incw", endings)
		lines := append([]string{}, words...)
		if chance(t, 20, label+"-incpfx") {
			lines = append([]string{"##!^ " + pick(t, []string{"p", `\b`}, label+"-ip")}, lines...)
		}
		if chance(t, 20, label+"-incsfx") {
			lines = append([]string{"##!$ " + pick(t, []string{"q", `\b`}, label+"-is")}, lines...)
		}
		if chance(t, 25, label+"-incdef") {
			lines = append([]string{"##!> define idef [0-9]"}, lines...)
			lines = append(lines, "n{{idef}}")
		}
		w.Put("crs/regex-assembly/include/"+name+".ra", joinLines(lines))
		incs = append(incs, name)
		incWords = append(incWords, words)
	}
	nExc := drawInt(t, 0, 2, label+"-nexc")
	for i := 0; i < nExc; i++ {
		name := fmt.Sprintf("exc%d", i+1)
		var words []string
		src := incWords[drawInt(t, 0, len(incWords)-1, label+"-excsrc")]
		for _, wd := range src {
			if drawBool(t, label+"-exck") {
				words = append(words, wd)
			}
		}
		words = append(words, drawWordList(t, 0, 2, label+"-excw", endings)...)
		if chance(t, 35, label+"-excdef") {
			// exclude files that define the same name differently: what one of them defines must not depend on which is parsed first
			words = append([]string{"##!> define exd " + pick(t, []string{"s", "es", "x"}, label+"-exdv")}, words...)
			if len(src) > 0 {
				base := src[0]
				words = append(words, strings.TrimRight(base, "sex")+"{{exd}}")
			}
		}
		w.Put("crs/regex-assembly/exclude/"+name+".ra", joinLines(words))
		excs = append(excs, name)
	}
	// the same base name in both directories: the lookup order (include first) must not depend on anything random
	if chance(t, 25, label+"-shadow") {
		w.Put("crs/regex-assembly/exclude/inc1.ra", "shadowed\nonlyinexclude\n")
	}
	opts.Includes = incs
	opts.Excludes = excs
	// assembly files and the rules file
	rf := &RuleFile{Path: "crs/rules/REQUEST-942-APPLICATION-ATTACK-SQLI.conf"}
	ids := []string{"942100", "942110", "942120", "942130", "942140", "942150"}
	for i := 0; i < nTargets; i++ {
		id := ids[i]
		chain := 0
		if chance(t, 30, label+"-chain") {
			chain = drawInt(t, 1, 2, label+"-chainlen")
		}
		spec := RuleSpec{ID: id}
		for k := 0; k <= chain; k++ {
			spec.Ops = append(spec.Ops, "@rx")
			spec.Regex = append(spec.Regex, "old"+fmt.Sprint(k))
		}
		rf.Rules = append(rf.Rules, spec)
		// which link does the assembly file address?
		k := drawInt(t, 0, chain, label+"-k")
		target := id
		if k > 0 {
			target = fmt.Sprintf("%s-chain%d", id, k)
		}
		prog := drawProgram(t, opts, label+"-prog")
		w.Put("crs/regex-assembly/"+target+".ra", joinLines(prog.Lines))
		cw.Targets = append(cw.Targets, target)
		// further links of the same rule with an assembly file of their own (NNNNNN.ra next to NNNNNN-chainK.ra)
		if chain > 0 && chance(t, 40, label+"-morelinks") {
			for k2 := 0; k2 <= chain; k2++ {
				if k2 == k || !chance(t, 70, label+"-link") {
					continue
				}
				t2 := id
				if k2 > 0 {
					t2 = fmt.Sprintf("%s-chain%d", id, k2)
				}
				w.Put("crs/regex-assembly/"+t2+".ra", joinLines(drawWordList(t, 1, 3, label+"-linkw", nil)))
				cw.Targets = append(cw.Targets, t2)
			}
		}
	}
	renderRuleFile(rf, rulesOpts, "# rules\n\n", nil)
	w.Put(rf.Path, rf.Content)
	cw.RuleFile = rf
	// further rules files (other id prefixes); one of their rules may be missing, which makes its update fail
	if chance(t, 30, label+"-morefiles") {
		for _, pre := range []string{"933", "941"} {
			if !drawBool(t, label+"-more-"+pre) {
				continue
			}
			id := pre + "100"
			body := "SecRule ARGS \"@rx old\" \\\n    \"id:" + id + ",\\\n    phase:2\"\n"
			if chance(t, 35, label+"-missingrule") {
				body = "# rule " + id + " was removed\n"
			}
			w.Put("crs/rules/REQUEST-"+pre+"-OTHER.conf", body)
			w.Put("crs/regex-assembly/"+id+".ra", joinLines(drawWordList(t, 1, 3, label+"-morew", nil)))
		}
	}
	if chance(t, 50, label+"-cfg") {
		cfg := crsLikeConfig
		if chance(t, 25, label+"-cfgcase") {
			// keys in another spelling of upper / lower case next to the known ones: whatever they mean, they mean it in every run
			cfg = strings.Replace(cfg, "    unix: |\n", "    Unix: other-u\n    UNIX: third-u\n    unix: |\n", -1)
			cfg = strings.Replace(cfg, "    windows: |\n", "    Windows: other-w\n    windows: |\n", -1)
		}
		w.Put("crs/regex-assembly/toolchain.yaml", cfg)
	}
	return cw
}

const crsLikeConfig = `patterns:
  anti_evasion:
    unix: |
      [\x5c'\"\[]*(?:\$[a-z0-9_@?!#{*-]*)?(?:\x5c)?
    windows: |
      [\"\^]*
  anti_evasion_suffix:
    unix: |
      (?:\s|<|>).*
    windows: |
      (?:[\s,;]|\.|/|<|>).*
  anti_evasion_no_space_suffix:
    unix: |
      (?:<|>).*
    windows: |
      (?:[,;]|\.|/|<|>).*
`

func genC03(t *rapid.T, tier string) (*World, any) {
	opts := ProgOpts{Spicy: chance(t, 30, "spicy"), Flags: true, PrefixSufx: true, Blocks: true, Cmdline: true, Defs: true,
		Pairs: true, Ambiguous: true, Comments: true, MaxLines: 10, StoredNames: true}
	maxT := 2
	if tier == "thorough" {
		opts.MaxLines = 25
		maxT = 4
	}
	nT := drawInt(t, 1, maxT, "ntargets")
	cw := drawCRSWorld(t, "w", nT, opts, RulesOpts{})
	// cyclic / computed definitions belong to "all programs" as well
	if chance(t, 15, "cyclic") {
		tgt := cw.Targets[0]
		p := "crs/regex-assembly/" + tgt + ".ra"
		extra := pick(t, []string{
			"##!> define cya x{{cyb}}\n##!> define cyb y{{cya}}\nq{{cya}}\n",
			"##!> define in ner\n##!> define inner w\nq{{in{{in}}}}\n",
			"##!> define ka {{kb}}\n##!> define kb {{kc}}\n##!> define kc {{ka}}\nr{{kb}}\n",
		}, "cyc")
		cw.W.Put(p, cw.W.Files[p].Text+extra)
	}
	// two exclude files of one directive that define the same name differently: which definition the second one sees is fixed by the order written
	if chance(t, 12, "excl-defs") {
		tgt := cw.Targets[0]
		p := "crs/regex-assembly/" + tgt + ".ra"
		cw.W.Put("crs/regex-assembly/include/excinc.ra", "runs\nrunes\nrunx\n")
		cw.W.Put("crs/regex-assembly/exclude/exd1.ra", "##!> define sfx s\nrun{{sfx}}\n")
		cw.W.Put("crs/regex-assembly/exclude/exd2.ra", "##!> define sfx es\nrun{{sfx}}\n")
		cw.W.Put(p, cw.W.Files[p].Text+"##!> include-except excinc "+pick(t, []string{"exd1 exd2", "exd2 exd1", "exd1 exd2 exd1"}, "exdorder")+"\n")
	}
	// stored expressions whose names differ only in case, and a reference to a third spelling (which is simply unknown)
	if chance(t, 8, "near-names") {
		tgt := cw.Targets[0]
		p := "crs/regex-assembly/" + tgt + ".ra"
		cw.W.Put(p, cw.W.Files[p].Text+"##!> assemble\n  alpha\n  ##!=< Part\n  beta\n  ##!=< pArt\n  ##!=> "+pick(t, []string{"part", "PART", "Part ", "pArt"}, "nearref")+"\n  gamma\n##!<\n")
	}
	if chance(t, 3, "bigblock") {
		// a word list of several hundred entries inside a block
		tgt := cw.Targets[0]
		p := "crs/regex-assembly/" + tgt + ".ra"
		var sbd strings.Builder
		sbd.WriteString("##!> " + pick(t, []string{"assemble", "cmdline unix"}, "bigkind") + "\n")
		bign := drawInt(t, 520, 700, "bign")
		for k := 0; k < bign; k++ {
			sbd.WriteString(fmt.Sprintf("  w%dx%s\n", k*7%1000, strings.Repeat("q", k%5)))
		}
		sbd.WriteString("##!<\n")
		cw.W.Put(p, cw.W.Files[p].Text+sbd.String())
	}
	params := &C03Params{}
	target := pick(t, cw.Targets, "target")
	cmdKinds := []string{"generate", "generate-stdin", "update", "update-all", "compare", "compare-all", "compare-gh", "format", "format-all", "format-check"}
	nc := drawInt(t, 1, 2, "ncmds")
	for i := 0; i < nc; i++ {
		kind := pick(t, cmdKinds, "cmd")
		c := C03Cmd{Name: kind}
		switch kind {
		case "generate":
			c.Argv = []string{"regex", "generate", target}
		case "generate-stdin":
			c.Argv = []string{"regex", "generate", "-"}
			c.StdinFile = "crs/regex-assembly/" + target + ".ra"
		case "update":
			c.Argv = []string{"regex", "update", target}
		case "update-all":
			c.Argv = []string{"regex", "update", "--all"}
		case "compare":
			c.Argv = []string{"regex", "compare", target}
		case "compare-all":
			c.Argv = []string{"regex", "compare", "--all"}
		case "compare-gh":
			c.Argv = []string{"-o", "github", "regex", "compare", "--all"}
		case "format":
			c.Argv = []string{"regex", "format", target}
		case "format-all":
			c.Argv = []string{"regex", "format", "--all"}
		case "format-check":
			c.Argv = []string{"regex", "format", "--check", "--all"}
		}
		params.Cmds = append(params.Cmds, c)
	}
	nAlts := 3
	if tier == "thorough" {
		nAlts = 8
	}
	for i := 0; i < nAlts; i++ {
		a := C03Alt{Plan: drawPlan(t, fmt.Sprintf("plan%d", i), false)}
		if i > 0 {
			a.Plan.NowUnix = simrt.DefaultNow + int64(drawInt(t, 0, 400000000, "clock"))
			if drawBool(t, "env") {
				a.Env = map[string]string{"UNRELATED_VAR": "x" + fmt.Sprint(i), "LC_ALL": "en_US.UTF-8", "GOMAXPROCS": pick(t, []string{"1", "2", "3", "4", "8", "16"}, "maxprocs")}
			}
			if chance(t, 30, "reloc") {
				a.Reloc = "some/deeper/parent"
			}
		}
		params.Alts = append(params.Alts, a)
	}
	params.Sweep = chance(t, 25, "sweep")
	params.Plain = params.Sweep
	params.Race = chance(t, 12, "race")
	return cw.W, params
}

type runOutcome struct {
	Exit   int
	Stdout []byte
	Snap   Snapshot
	Res    Result
}

func describeDiff(a, b runOutcome) (kind, detail string) {
	if a.Exit != b.Exit {
		return "exit", fmt.Sprintf("exit %d vs %d\nstdout A: %q\nstdout B: %q\nstderr A: %s\nstderr B: %s", a.Exit, b.Exit, clip(a.Stdout), clip(b.Stdout), clip(a.Res.Stderr), clip(b.Res.Stderr))
	}
	if !bytes.Equal(a.Stdout, b.Stdout) {
		return "stdout", fmt.Sprintf("stdout A: %q\nstdout B: %q", clip(a.Stdout), clip(b.Stdout))
	}
	if d := a.Snap.Diff(b.Snap, false); len(d) > 0 {
		return "disk", "files that differ between the two final trees: " + strings.Join(d, " ")
	}
	return "", ""
}

func clip(b []byte) string {
	if len(b) > 600 {
		return string(b[:600]) + "...(" + fmt.Sprint(len(b)) + " bytes)"
	}
	return string(b)
}

// permutedSites lists the sites that actually received a non-identity order.
func permutedSites(r *Result) []string {
	set := map[string]bool{}
	for _, e := range r.Trace {
		if e.Kind == "M" && len(e.Fields) >= 5 && e.Fields[4] != "id" {
			set[e.Fields[0]] = true
		}
		if e.Kind == "D" && len(e.Fields) >= 6 && e.Fields[5] != "id" {
			set["dir:"+e.Fields[0]] = true
		}
	}
	out := make([]string, 0, len(set))
	for s := range set {
		out = append(out, s)
	}
	sort.Strings(out)
	return out
}

func evalC03(sc *Scenario, sim *Sim) ([]Violation, bool, string) {
	var p C03Params
	if err := json.Unmarshal(sc.Params, &p); err != nil {
		machinery("params: %v", err)
	}
	var viol []Violation
	nontrivial := false
	sb := sim.NewSandbox(sc.World)
	defer sb.Close()
	var sbReloc *Sandbox
	defer func() {
		if sbReloc != nil {
			sbReloc.Close()
		}
	}()
	for _, c := range p.Cmds {
		run := func(s *Sandbox, w *World, prefix string, plan simrt.Plan, env map[string]string, plain bool) runOutcome {
			s.Restore(w)
			st := Step{Argv: c.Argv, Cwd: joinPath(prefix, "crs"), Plan: plan, Env: env, Plain: plain}
			if c.StdinFile != "" {
				d := sc.World.Files[c.StdinFile]
				st.Stdin = &d
			}
			r := s.Run(st)
			return runOutcome{Exit: r.Exit, Stdout: r.Stdout, Snap: stripPrefix(s.Snap(), prefix), Res: r}
		}
		base := run(sb, sc.World, "", simrt.Plan{}, nil, false)
		agree := true
		// raceCheck runs the command under the race detector; it returns a violation when two goroutines touch the same memory unsynchronised
		raceCheck := func(tries int) *Violation {
			if !isFile(filepath.Join(sim.BuildDir, "crs-race")) {
				sim.Stats.probe("race-detector-build-unavailable")
				return nil
			}
			for k := 0; k < tries; k++ {
				sb.Restore(sc.World)
				st := Step{Argv: c.Argv, Cwd: "crs", Race: true}
				if c.StdinFile != "" {
					d := sc.World.Files[c.StdinFile]
					st.Stdin = &d
				}
				rr := sb.Run(st)
				sim.Stats.probe("race-detector-run")
				if bytes.Contains(rr.Stderr, []byte("WARNING: DATA RACE")) || bytes.Contains(rr.Stderr, []byte("fatal error: concurrent map")) {
					return &Violation{Prop: "C03", Oracle: "race-detector",
						Sig:    fmt.Sprintf("C03/%s/data-race/uncontrolled-nondeterminism", c.Name),
						Msg:    fmt.Sprintf("`%s` runs goroutines that touch the same memory without synchronisation (race detector): its result depends on thread scheduling, a source of nondeterminism outside the seams", strings.Join(c.Argv, " ")),
						Detail: clip2(rr.Stderr, 3000)}
				}
			}
			return nil
		}
		replayingRace := sc.Violation != nil && sc.Violation.Oracle == "race-detector"
		if p.Race || replayingRace {
			tries := 1
			if replayingRace {
				tries = 5
			}
			if v := raceCheck(tries); v != nil {
				viol = append(viol, *v)
				continue
			}
		}
		// repeatability under one and the same schedule: anything that differs here is nondeterminism outside the seams
		// (goroutines, pointers, process ids ...), which the simulator cannot steer but can observe
		repeats := 1
		if sc.Violation != nil && sc.Violation.Oracle == "repeatability" {
			repeats = 60 // replay of such a finding: try harder to see it again
		}
		for k := 0; k < repeats && agree; k++ {
			again := run(sb, sc.World, "", simrt.Plan{}, nil, false)
			if kind, detail := describeDiff(base, again); kind != "" {
				agree = false
				// unsynchronised goroutines explain such a difference and, unlike the difference itself, show again on replay
				if v := raceCheck(3); v != nil {
					viol = append(viol, *v)
					break
				}
				viol = append(viol, Violation{Prop: "C03", Oracle: "repeatability",
					Sig:    fmt.Sprintf("C03/%s/%s/uncontrolled-nondeterminism", c.Name, kind),
					Msg:    fmt.Sprintf("`%s` gives different results in two runs under the identical schedule, clock and environment: a source of nondeterminism outside the seams", strings.Join(c.Argv, " ")),
					Detail: detail})
			}
		}
		for i, a := range p.Alts {
			if !agree {
				break
			}
			var out runOutcome
			if a.Reloc != "" {
				rw := sc.World.WithPrefix(a.Reloc)
				if sbReloc == nil {
					sbReloc = sim.NewSandbox(rw)
				}
				out = run(sbReloc, rw, a.Reloc, a.Plan, a.Env, false)
			} else {
				out = run(sb, sc.World, "", a.Plan, a.Env, false)
			}
			sites := permutedSites(&out.Res)
			if len(sites) > 0 {
				nontrivial = true
			}
			kind, detail := describeDiff(base, out)
			if kind != "" {
				agree = false
				// is it the schedule at all? run both sides once more; if either side does not repeat itself,
				// the difference is nondeterminism outside the seams
				var again, base2 runOutcome
				if a.Reloc != "" {
					again = run(sbReloc, sc.World.WithPrefix(a.Reloc), a.Reloc, a.Plan, a.Env, false)
				} else {
					again = run(sb, sc.World, "", a.Plan, a.Env, false)
				}
				base2 = run(sb, sc.World, "", simrt.Plan{}, nil, false)
				k1, _ := describeDiff(out, again)
				k2, _ := describeDiff(base, base2)
				if k1 != "" || k2 != "" {
					if v := raceCheck(3); v != nil {
						viol = append(viol, *v)
						break
					}
					viol = append(viol, Violation{Prop: "C03", Oracle: "repeatability",
						Sig:    fmt.Sprintf("C03/%s/%s/uncontrolled-nondeterminism", c.Name, kind),
						Msg:    fmt.Sprintf("`%s` gives different results in two runs under the identical schedule, clock and environment: a source of nondeterminism outside the seams", strings.Join(c.Argv, " ")),
						Detail: detail})
					break
				}
				// a difference that happens to repeat once can still come from racing goroutines rather than from the schedule
				if v := raceCheck(2); v != nil {
					viol = append(viol, *v)
					break
				}
				// attribution: which of the permuted sites is sufficient on its own?
				if len(sites) > 1 {
					var enough []string
					for _, s := range sites {
						one := simrt.Plan{MapDefault: map[string]int{}, NowUnix: a.Plan.NowUnix}
						for _, ms := range mapSites {
							one.MapDefault[ms] = 0
						}
						d := a.Plan.MapAll
						if v, ok := a.Plan.MapDefault[s]; ok {
							d = v
						}
						one.MapDefault[s] = d
						for _, o := range a.Plan.MapOverrides {
							if o.Site == s {
								one.MapOverrides = append(one.MapOverrides, o)
							}
						}
						o1 := run(sb, sc.World, "", one, nil, false)
						if k1, _ := describeDiff(base, o1); k1 != "" {
							enough = append(enough, s)
						}
					}
					if len(enough) > 0 {
						sites = enough
					}
				}
				viol = append(viol, Violation{
					Prop: "C03", Oracle: "schedule-independence",
					Sig: fmt.Sprintf("C03/%s/%s/%s", c.Name, kind, strings.Join(sites, "+")),
					Msg: fmt.Sprintf("`%s` differs between the identity schedule and alternative %d (permuted sites: %s; reloc=%q)",
						strings.Join(c.Argv, " "), i, strings.Join(sites, ", "), a.Reloc),
					Detail: detail,
				})
				break
			}
		}
		if p.Sweep && agree {
			// systematic neighbourhood: one site at a time, reverse and rotations
			maxN := map[string]int{}
			for _, e := range base.Res.Trace {
				if e.Kind == "M" && len(e.Fields) >= 2 {
					n := atoi(e.Fields[1])
					if n > maxN[e.Fields[0]] {
						maxN[e.Fields[0]] = n
					}
				}
			}
		sweep:
			for _, site := range sortedKeys(maxN) {
				n := maxN[site]
				for d := 1; d <= n && d <= 7; d++ {
					plan := simrt.Plan{MapDefault: map[string]int{site: d}}
					out := run(sb, sc.World, "", plan, nil, false)
					nontrivial = true
					if kind, detail := describeDiff(base, out); kind != "" {
						agree = false
						viol = append(viol, Violation{
							Prop: "C03", Oracle: "schedule-independence",
							Sig: fmt.Sprintf("C03/%s/%s/%s", c.Name, kind, strings.Join(permutedSites(&out.Res), "+")),
							Msg: fmt.Sprintf("`%s` differs between the identity schedule and decision %d at site %s alone",
								strings.Join(c.Argv, " "), d, site),
							Detail: detail,
						})
						break sweep
					}
				}
			}
		}
		if p.Plain && agree {
			// fidelity: the uninstrumented twin must agree whenever all explored schedules agree
			for k := 0; k < 2; k++ {
				out := run(sb, sc.World, "", simrt.Plan{}, nil, true)
				if kind, detail := describeDiff(base, out); kind != "" {
					// before blaming the seams: does the instrumented binary repeat itself at all?
					unstable := false
					for q := 0; q < 4; q++ {
						if k3, _ := describeDiff(base, run(sb, sc.World, "", simrt.Plan{}, nil, false)); k3 != "" {
							unstable = true
						}
					}
					if unstable {
						viol = append(viol, Violation{Prop: "C03", Oracle: "repeatability",
							Sig:    fmt.Sprintf("C03/%s/%s/uncontrolled-nondeterminism", c.Name, kind),
							Msg:    fmt.Sprintf("`%s` gives different results in repeated runs under the identical schedule: a source of nondeterminism outside the seams", strings.Join(c.Argv, " ")),
							Detail: detail})
						agree = false
						break
					}
					if v := raceCheck(3); v != nil {
						viol = append(viol, *v)
						agree = false
						break
					}
					machinery("the uninstrumented binary disagrees with the instrumented one on `%s` although every explored schedule agrees (%s): the simulator cannot reproduce an order the real runtime produced\n%s", strings.Join(c.Argv, " "), kind, detail)
				}
			}
			sim.Stats.mu.Lock()
			sim.Stats.PlainAgree++
			sim.Stats.mu.Unlock()
		}
	}
	return viol, nontrivial, fmt.Sprintf("%x|%s", sc.World.Hash(), string(sc.Params))
}

func atoi(s string) int {
	n := 0
	fmt.Sscan(s, &n)
	return n
}

func joinPath(a, b string) string {
	if a == "" {
		return b
	}
	return a + "/" + b
}

func init() {
	register(&Property{
		ID:          "C03",
		Level:       "exploration",
		Rule:        "scenario = generated CRS tree (assembly programs biased to map-driven constructs: ambiguous directive lines, 1-3 suffix pairs incl. cascades and overlapping keys, nested / cyclic / computed definitions, flag sets, include-except; a chained rule may have data files for several of its links; (3%) a block of 520-700 entries) x 1-2 commands out of {generate, generate -, update, update --all, compare, compare --all, compare -o github, format, format --all, format --check} x 3 (quick) / 8 (thorough) seeded schedules (per-site default decision + <=4 per-event overrides; identity, reverse, rotations, seeded shuffles), each also with another simulated instant, unrelated environment variables, another CPU budget (GOMAXPROCS) and (30%) the tree relocated under another parent directory; oracle: exit status, stdout and the final tree equal those of the identity schedule; two runs under the identity schedule equal each other; (12%) a run of the same instrumented sources built with the race detector reports no data race. Non-trivial = at least one map-range event with >=2 elements received a non-identity order; distinct = distinct (world, commands, schedules).",
		Gen:         genC03,
		Eval:        evalC03,
		QuickChecks: 320, ThoroughChecks: 6000, Timeout: 20 * time.Second,
		Assumptions: []string{
			"every permutation of a map's keys is a legal iteration order of the Go runtime (language specification)",
			"map iteration inside dependencies (rassemble-go, yaml.v3, cobra, mergo) is not seamed; the plain-binary cross-runs and the determinism self-test watch for an effect",
			"stderr (log text) is not part of the compared output",
		},
		RealStub: realStubDefault,
	})
}

var realStubDefault = []string{
	"real: every package of the repository (instrumented only at the seams), cobra, zerolog, yaml.v3, mergo, rassemble-go, semver, the OS file system (tmpfs), process start-up, argv/cwd/env/stdin handling",
	"stub: Go map iteration order and directory enumeration order (chosen by the schedule, not hashed), the wall clock, the build-time version string (environment variable instead of -ldflags), the network below http.RoundTripper (unreachable unless a scenario supplies a simulated GitHub)",
}
