package main

import (
	"encoding/json"
	"fmt"
	"path/filepath"
	"regexp"
	"strings"
	"time"

	"pgregory.net/rapid"

	"crssim/simrt"
)

// C15 - inspecting commands never write; rewriting commands touch only their targets.
// Invariant checked after every step of a history: the set of changed paths of the whole
// sandbox (and every traced write call) is contained in what the statement allows.

type C15Step struct {
	Name    string     `json:"name"`
	Argv    []string   `json:"argv"` // without -d
	Dir     string     `json:"dir"`  // value of -d ("" = absent); relative to cwd
	Cwd     string     `json:"cwd"`  // relative to the sandbox root
	Stdin   string     `json:"stdin_file,omitempty"`
	UnsetCI bool       `json:"unset_ci,omitempty"`
	Plan    simrt.Plan `json:"plan"`
}

type C15Params struct {
	Steps []C15Step `json:"steps"`
}

const dirtyYaml = `---
meta:
  author: "someone"
rule_id: 942100
tests:
  - test_id: 7
    desc: first
    stages:
      - input:
          uri: "/get?x=1"
  - test_id: 9
    desc: second
`

const dirtyConf = `# ------------------------------------------------------------------------
# OWASP CRS ver.3.9.9
# Copyright (c) 2006-2020 Trustwave and contributors. All rights reserved.
# Copyright (c) 2021-2023 CRS project. All rights reserved.
# ------------------------------------------------------------------------

SecComponentSignature "OWASP_CRS/3.9.9"

SecRule ARGS "@rx stale" \
    "id:942100,\
    phase:2,\
    block,\
    ver:'OWASP_CRS/3.9.9',\
    setvar:tx.crs_setup_version=399,\
    severity:'CRITICAL'"

SecRule ARGS "@rx stale2" \
    "id:942110,\
    phase:2,\
    ver:'OWASP_CRS/3.9.9',\
    severity:'CRITICAL'"
`

const dirtyRa = "   foo\n##!>   assemble\nbar\n ##!<\n\n\n"

func putCRSTree(w *World, root string, t *rapid.T, label string) {
	w.Put(root+"/regex-assembly/942100.ra", dirtyRa)
	w.Put(root+"/regex-assembly/942110.ra", "  ##!+ i\n  baz[a-c]\n  ##!> include ../../shared-data/common\n ##!> include ../../../beside-the-root/words\n")
	// include names may lead out of regex-assembly (shared word lists): reading them is fine, formatting them is not format's business
	w.Put(root+"/shared-data/common.ra", "   shared\n  words\n")
	w.Put(filepath.Clean(root+"/../beside-the-root/words.ra"), "   beside\n")
	// formatted, but with an upper-case class under the i flag: format --check reports it (lint) and must still not write
	w.Put(root+"/regex-assembly/942180.ra", raHeader+"\n##!+ i\nfoo[A-Z]bar\n")
	w.Put(root+"/regex-assembly/942190.ra", "   ##!+ i\n qux[A-Z]\n")
	w.Put(root+"/regex-assembly/include/inc1.ra", "  abs\nbes\n")
	w.Put(root+"/regex-assembly/exclude/exc1.ra", "  bes\n")
	w.Put(root+"/regex-assembly/toolchain.yaml", crsLikeConfig)
	w.Put(root+"/regex-assembly/notes.txt", dirtyRa)
	w.Put(root+"/regex-assembly/942100.txt", dirtyRa)
	w.Put(root+"/regex-assembly/942100.ra.bak", dirtyRa)
	w.Put(root+"/regex-assembly/.editorconfig", "root = true\n")
	w.Put(root+"/regex-assembly/INTRO.RA", dirtyRa)
	w.Put(root+"/regex-assembly/include/words.Ra", dirtyRa)
	w.Put(root+"/rules/UPPER.CONF", dirtyConf)
	w.Put(root+"/tests/regression/tests/REQUEST-942-APPLICATION-ATTACK-SQLI/942140.YAML", dirtyYaml)
	w.Put(root+"/rules/.gitkeep", "")
	w.Put(root+"/tests/regression/tests/.hidden.yaml", dirtyYaml)
	w.Put(root+"/rules/REQUEST-942-APPLICATION-ATTACK-SQLI.conf", dirtyConf)
	w.Put(root+"/rules/REQUEST-941-APPLICATION-ATTACK-XSS.conf", strings.ReplaceAll(dirtyConf, "9421", "9411"))
	w.Put(root+"/rules/notes-942.conf.txt", dirtyConf)
	w.Put(root+"/rules/restricted-files.data", ".conf\n.example\n")
	w.Put(root+"/rules/readme.md", dirtyConf)
	w.Put(root+"/crs-setup.conf.example", dirtyConf)
	w.Put(root+"/docs/OTHER.example.md", dirtyConf)
	w.Put(root+"/tests/regression/tests/REQUEST-942-APPLICATION-ATTACK-SQLI/942100.yaml", dirtyYaml)
	w.Put(root+"/tests/regression/tests/REQUEST-942-APPLICATION-ATTACK-SQLI/942110.yml", dirtyYaml)
	w.Put(root+"/tests/regression/tests/REQUEST-942-APPLICATION-ATTACK-SQLI/942120", dirtyYaml)
	w.Put(root+"/tests/regression/tests/REQUEST-942-APPLICATION-ATTACK-SQLI/942130.yaml.bak", dirtyYaml)
	w.Put(root+"/tests/regression/tests/REQUEST-942-APPLICATION-ATTACK-SQLI/9421400.yaml", dirtyYaml)
	w.Put(root+"/tests/regression/tests/REQUEST-942-APPLICATION-ATTACK-SQLI/notes.yaml", dirtyYaml)
	w.Put(root+"/tests/regression/README.yaml", dirtyYaml)
	w.Put(root+"/tests/regression/942155.yaml", dirtyYaml)
	w.Put(root+"/tests/regression/nuclei/942156.yml", dirtyYaml)
	// correctly numbered, only the end of the file is not normalised: --check must report it and still not write
	w.Put(root+"/tests/regression/tests/REQUEST-942-APPLICATION-ATTACK-SQLI/942160.yaml", "---\ntests:\n  - test_id: 1\n    desc: a\n  - test_id: 2\n    desc: b\n\n   \n")
	w.Put(root+"/tests/regression/tests/REQUEST-942-APPLICATION-ATTACK-SQLI/942170.yml", "---\ntests:\n  - test_id: 1\n    desc: no final newline")
	w.Put(root+"/tests/942150.yaml", dirtyYaml)
	w.Put(root+"/docs/942110.yml", dirtyYaml) // named like a test file, inside the root, in no test directory
	if t != nil && chance(t, 50, label+"-extra") {
		w.Put(root+"/regex-assembly/sub/deeper/x.ra", dirtyRa)
		w.Put(root+"/util/tool.conf", dirtyConf)
	}
}

func genC15(t *rapid.T, tier string) (*World, any) {
	w := NewWorld()
	putCRSTree(w, "crs", t, "outer")
	putCRSTree(w, "crs/nested", t, "nested") // a nested root
	putCRSTree(w, "outside", nil, "")        // a sibling tree that must never be touched
	if chance(t, 30, "dirlinks") {
		// directories linked into the tree from outside (shared plugins, packaged rules): no walk follows them
		w.Links = map[string]string{
			"crs/plugins-shared":                  "../outside/rules",
			"crs/regex-assembly/include/external": "../../../outside/regex-assembly/include",
			"crs/rules/vendor":                    "../../outside/rules",
		}
	}
	w.Put("crs.conf", dirtyConf) // beside the root
	w.Put("942100.yaml", dirtyYaml)
	w.Put("942110.yml", dirtyYaml)
	p := &C15Params{}
	type cmdT struct {
		name  string
		argv  []string
		stdin string
	}
	cmds := []cmdT{
		{"generate", []string{"regex", "generate", "942100"}, ""},
		{"generate-stdin", []string{"regex", "generate", "-"}, "crs/regex-assembly/942100.ra"},
		{"compare", []string{"regex", "compare", "942100"}, ""},
		{"compare-all", []string{"regex", "compare", "--all"}, ""},
		{"compare-all-gh", []string{"-o", "github", "regex", "compare", "--all"}, ""},
		{"format-check", []string{"regex", "format", "--check", "942100"}, ""},
		{"format-check-lint", []string{"regex", "format", "--check", pick(t, []string{"942180", "942190"}, "lintarg")}, ""},
		{"format-check-all", []string{"regex", "format", "--check", "--all"}, ""},
		{"format-check-all-gh", []string{"-o", "github", "regex", "format", "-c", "-a"}, ""},
		{"format", []string{"regex", "format", "942110"}, ""},
		{"format-include", []string{"regex", "format", "inc1"}, ""},
		{"format-all", []string{"regex", "format", "--all"}, ""},
		{"update", []string{"regex", "update", "942100"}, ""},
		{"update-all", []string{"regex", "update", "--all"}, ""},
		{"renumber-check", []string{"util", "renumber-tests", "--check", "942100"}, ""},
		{"renumber-check-eof", []string{"util", "renumber-tests", "--check", pick(t, []string{"942160", "942170"}, "eofarg")}, ""},
		{"renumber-check-all", []string{"util", "renumber-tests", "--check", "--all"}, ""},
		{"renumber-check-all-gh", []string{"-o", "github", "util", "renumber-tests", "-c", "-a"}, ""},
		{"renumber", []string{"util", "renumber-tests", "942110"}, ""},
		{"renumber-filename", []string{"util", "renumber-tests", pick(t, []string{"942100.yaml", "942110.yml"}, "fnarg")}, ""}, // the file-name spelling of the argument
		{"renumber-check-filename", []string{"util", "renumber-tests", "--check", pick(t, []string{"942100.yaml", "942110.yml"}, "fnarg2")}, ""},
		{"renumber-decoy", []string{"util", "renumber-tests", pick(t, []string{"942130", "notes", "9421400", "942120"}, "decoyarg")}, ""},
		{"renumber-all", []string{"util", "renumber-tests", "--all"}, ""},
		{"renumber-all-gh", []string{"-o", "github", "util", "renumber-tests", "--all"}, ""},
		{"copyright", []string{"chore", "update-copyright", "-v", "4.1.0", "-y", "2025"}, ""},
		{"version", []string{"version"}, ""},
		{"version-online", []string{"version"}, ""},
		{"completion", []string{"completion", pick(t, []string{"bash", "zsh", "fish", "powershell"}, "shell")}, ""},
	}
	// where the command is started and what -d says
	type place struct{ cwd, dir string }
	places := []place{
		{"crs", ""}, {"crs", "."}, {"", "crs"}, {"crs/rules", ".."}, {"", "crs/rules"}, {"", "crs/tests/regression/tests"},
		{"crs/nested", ""}, {"", "crs/nested/rules"}, {"crs", "nested"}, {"outside", "../crs"}, {"", "crs/regex-assembly/include"},
		{"crs/docs", ".."}, {"crs/nested/docs", "../.."},
		{"", "crs/rules/vendor"}, {"", "crs/plugins-shared"}, {"crs", "rules/vendor"}, // through a linked directory (where the tree has one): the ancestors of the path as given count
		{"crs/rules", ""}, {"", ""}, // without -d the working directory itself is the root: nothing to find there
	}
	maxSteps := 4
	if tier == "thorough" {
		maxSteps = 8
	}
	n := drawInt(t, 1, maxSteps, "nsteps")
	for i := 0; i < n; i++ {
		c := pick(t, cmds, "cmd")
		pl := pick(t, places, "place")
		st := C15Step{Name: c.name, Argv: c.argv, Dir: pl.dir, Cwd: pl.cwd, Stdin: c.stdin, Plan: drawPlan(t, fmt.Sprintf("plan%d", i), true)}
		if c.name == "version-online" {
			st.UnsetCI = true
		}
		p.Steps = append(p.Steps, st)
	}
	return w, p
}

var testFileRe = regexp.MustCompile(`^[0-9]{6}\.ya?ml$`)

// resolveRoot is the statement's rule: nearest ancestor-or-self of -d holding regex-assembly; the working directory itself without -d.
func resolveRoot(sb *Sandbox, cwd, dir string) string {
	abs := filepath.Join(sb.W, cwd)
	if dir == "" {
		return abs
	}
	cur := filepath.Clean(filepath.Join(abs, dir))
	for {
		if isDir(filepath.Join(cur, "regex-assembly")) {
			return cur
		}
		parent := filepath.Dir(cur)
		if parent == cur {
			return ""
		}
		cur = parent
	}
}

// allowedC15 says whether the command may touch the sandbox-relative path.
func allowedC15(name, root, rel string, sb *Sandbox) bool {
	if root == "" {
		return false
	}
	full := filepath.Join(sb.W, rel)
	if !strings.HasPrefix(full, root+"/") {
		return false
	}
	in := strings.TrimPrefix(full, root+"/")
	base := filepath.Base(in)
	switch {
	case strings.HasPrefix(name, "format") && !strings.Contains(name, "check"):
		return strings.HasPrefix(in, "regex-assembly/") && strings.HasSuffix(base, ".ra")
	case name == "update" || name == "update-all":
		ok, _ := filepath.Match("*-942-*", base)
		return filepath.Dir(in) == "rules" && ok
	case strings.HasPrefix(name, "renumber") && !strings.Contains(name, "check"):
		return strings.HasPrefix(in, "tests/regression/tests/") && testFileRe.MatchString(base)
	case name == "copyright":
		return strings.HasSuffix(base, ".conf") || strings.HasSuffix(base, ".example")
	}
	return false
}

func evalC15(sc *Scenario, sim *Sim) ([]Violation, bool, string) {
	var p C15Params
	if err := json.Unmarshal(sc.Params, &p); err != nil {
		machinery("params: %v", err)
	}
	sb := sim.NewSandbox(sc.World)
	defer sb.Close()
	var viol []Violation
	for si, s := range p.Steps {
		argv := s.Argv
		if s.Dir != "" {
			argv = append([]string{"-d", s.Dir}, argv...)
		}
		st := Step{Argv: argv, Cwd: s.Cwd, Plan: s.Plan, UnsetCI: s.UnsetCI}
		if s.Stdin != "" {
			d := sc.World.Files[s.Stdin]
			st.Stdin = &d
		}
		root := resolveRoot(sb, s.Cwd, s.Dir)
		before := sb.Snap()
		r := sb.Run(st)
		after := sb.Snap()
		if r.Exit == 0 {
			sim.Stats.probe("exit0:" + s.Name)
		} else {
			sim.Stats.probe("failed:" + s.Name)
		}
		if len(before.Diff(after, false)) > 0 {
			sim.Stats.probe("wrote:" + s.Name)
		}
		inspecting := true
		switch s.Name {
		case "format", "format-include", "format-all", "update", "update-all", "renumber", "renumber-filename", "renumber-decoy", "renumber-all", "renumber-all-gh", "copyright":
			inspecting = false
		}
		var bad []string
		for _, d := range before.Diff(after, inspecting) {
			rel := d[1:]
			if d[0] != '~' || !allowedC15(s.Name, root, rel, sb) {
				// directories change their mtime when an entry is created or removed below them; content changes are what counts
				if after[rel].Type == "d" && before[rel].Type == "d" {
					continue
				}
				bad = append(bad, d)
			}
		}
		if s.Name != "version-online" && s.Name != "version" {
			for _, f := range sb.OutsideFiles() {
				bad = append(bad, "+"+f)
			}
		}
		for _, wc := range r.WriteCalls() {
			parts := strings.SplitN(wc, " ", 2)
			rel, err := filepath.Rel(sb.W, parts[1])
			if err != nil || strings.HasPrefix(rel, "..") || !allowedC15(s.Name, root, rel, sb) {
				bad = append(bad, "call:"+parts[0]+":"+rel)
			}
		}
		if len(bad) > 0 {
			kind := "writer-out-of-lane"
			if inspecting {
				kind = "inspecting-command-writes"
			}
			// discriminator: the command and the class of the first offending path
			cls := classifyPath(bad[0])
			rootRel, _ := filepath.Rel(sb.W, root)
			viol = append(viol, Violation{Prop: "C15", Oracle: "write-set", Sig: fmt.Sprintf("C15/%s/%s/%s", kind, s.Name, cls),
				Msg: fmt.Sprintf("step %d `%s` (cwd=%q, resolved root=%q, exit %d) touched paths outside what the statement allows: %s",
					si, strings.Join(argv, " "), s.Cwd, rootRel, r.Exit, strings.Join(bad, " ")),
				Detail: clip(r.Stderr)})
			break
		}
	}
	return viol, true, string(sc.Params)
}

func classifyPath(d string) string {
	p := strings.TrimPrefix(d, "call:")
	base := filepath.Base(p)
	switch {
	case strings.HasPrefix(d, "+"):
		return "created"
	case strings.HasPrefix(d, "-"):
		return "deleted"
	case strings.HasPrefix(strings.TrimLeft(p, "+-~"), "home") || strings.HasPrefix(strings.TrimLeft(p, "+-~"), "tmp"):
		return "home-or-tmpdir"
	case strings.Contains(p, "outside/") || !strings.Contains(p, "crs/"):
		return "outside-root"
	case testFileRe.MatchString(base), strings.HasSuffix(base, ".ra"), strings.HasSuffix(base, ".conf"), strings.HasSuffix(base, ".example"):
		return "target-of-another-lane:" + filepath.Ext(base)
	default:
		ext := filepath.Ext(base)
		if ext == "" {
			ext = "no-extension"
		}
		return "decoy:" + ext
	}
}

func init() {
	register(&Property{
		ID: "C15", Level: "exploration",
		Rule: "scenario = sandbox with a CRS tree, a nested root inside it and a sibling tree outside it, every tree holding real targets and 'dirty' decoys of each kind (other extensions, 942100.txt, 942100.ra.bak, a test file without extension, 942130.yaml.bak, 9421400.yaml, .conf.txt, .example.md, files beside the root) x histories of 1-4 steps drawn from 28 command / flag combinations (renumber-tests also with the file-name spelling of its argument while a same-named file lies in the working directory) (generate, generate -, compare, compare --all, -o github, format [--check] single / include / --all, update single / --all, renumber-tests [--check] single / --all / github, update-copyright, version with CI set and unset against an unreachable simulated network, completion) x 15 start positions (-d at the root, a subdirectory, the nested root, from outside, absent) x a schedule (map iteration and directory order) per step. Invariant after every step: changed paths of the whole sandbox (content, type, mode; for inspecting commands also mtime) and every traced write call lie inside the statement's allow-list for that command under the root resolved by the statement's rule. Non-trivial = every scenario; distinct = distinct histories.",
		Gen:  genC15, Eval: evalC15,
		QuickChecks: 1200, ThoroughChecks: 20000, Timeout: 20 * time.Second,
		Assumptions: []string{
			"symbolic links to files are not generated (what a writer may do through a link to a file is not something the statement decides); (30%) directories of the sibling tree are linked into the root - no walk follows them, so nothing behind them may change",
			"a writer may rewrite one of its own targets with identical bytes",
		},
		RealStub: realStubDefault,
	})
}
