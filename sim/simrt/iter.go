package simrt

import (
	"fmt"
	"reflect"
	"sort"
)

// Item is one step of a simulated map iteration. The value is looked up when
// the step is visited (as the Go runtime does), not when the loop starts.
type Item[K comparable, V any] struct {
	Key K
	m   map[K]V
}

// Get returns the value currently stored for the key; ok is false when the
// entry was deleted after the iteration started (Go never visits such entries).
func (it Item[K, V]) Get() (V, bool) {
	v, ok := it.m[it.Key]
	return v, ok
}

// Iter returns the keys of m in the order the plan dictates for this event at
// site. The canonical ("identity") order is sorted keys. Entries added during
// the iteration are not visited, which the language permits.
func Iter[M ~map[K]V, K comparable, V any](m M, site string) []Item[K, V] {
	keys := make([]K, 0, len(m))
	for k := range m {
		keys = append(keys, k)
	}
	sortKeys(keys)
	mu.Lock()
	d, k := decision(site, len(keys), plan.MapAll, plan.MapDefault, plan.MapOverrides, mapCount)
	mu.Unlock()
	perm := Permutation(len(keys), d)
	items := make([]Item[K, V], len(keys))
	for i, idx := range perm {
		items[i] = Item[K, V]{Key: keys[idx], m: m}
	}
	if len(keys) >= 2 {
		if isIdentity(perm) {
			trace("M", site, len(keys), k, d, "id")
		} else {
			trace("M", site, len(keys), k, d, permString(perm))
		}
	}
	return items
}

func sortKeys[K comparable](keys []K) {
	if len(keys) < 2 {
		return
	}
	switch reflect.ValueOf(keys[0]).Kind() {
	case reflect.String:
		sort.Slice(keys, func(i, j int) bool {
			return reflect.ValueOf(keys[i]).String() < reflect.ValueOf(keys[j]).String()
		})
	case reflect.Int, reflect.Int8, reflect.Int16, reflect.Int32, reflect.Int64:
		sort.Slice(keys, func(i, j int) bool {
			return reflect.ValueOf(keys[i]).Int() < reflect.ValueOf(keys[j]).Int()
		})
	case reflect.Uint, reflect.Uint8, reflect.Uint16, reflect.Uint32, reflect.Uint64, reflect.Uintptr:
		sort.Slice(keys, func(i, j int) bool {
			return reflect.ValueOf(keys[i]).Uint() < reflect.ValueOf(keys[j]).Uint()
		})
	default:
		sort.Slice(keys, func(i, j int) bool {
			return fmt.Sprintf("%#v", keys[i]) < fmt.Sprintf("%#v", keys[j])
		})
	}
}
