package main

import (
	"bytes"
	"encoding/json"
	"fmt"
	"regexp"
	"strings"
	"time"

	"pgregory.net/rapid"

	"crssim/simrt"
)

// C13 - renumber-tests numbers tests 1..n, touches nothing else, is idempotent; --check agrees.
// No schedule or fault is involved; the simulator contributes the histories
// (check, renumber, check, renumber) over one disk, the write monitor and replay.

type yamlLine struct {
	Kind   string `json:"k"`           // id | title | other
	Prefix string `json:"p,omitempty"` // id/title: everything up to and including the colon
	Test   int    `json:"t,omitempty"` // ordinal of the test the line belongs to (1-based)
	Text   string `json:"x"`           // the line as written
}

type C13File struct {
	Path   string     `json:"path"`
	RuleID string     `json:"rule_id"`
	Lines  []yamlLine `json:"lines"`
	CRLF   bool       `json:"crlf"`
	Mixed  bool       `json:"mixed"` // tests of the file do not all carry the same fields
}

type C13Params struct {
	Files  []C13File    `json:"files"`
	All    bool         `json:"all"`
	Github bool         `json:"github"`
	Plans  []simrt.Plan `json:"plans"`
}

func drawYamlFile(t *rapid.T, label, ruleID, ext string, maxTests int) (C13File, string) {
	f := C13File{RuleID: ruleID}
	add := func(kind, prefix string, test int, text string) {
		f.Lines = append(f.Lines, yamlLine{Kind: kind, Prefix: prefix, Test: test, Text: text})
	}
	add("other", "", 0, "---")
	add("other", "", 0, "meta:")
	add("other", "", 0, "  author: \""+drawWord(t, 2, 5, label+"-auth")+"\"")
	if chance(t, 50, label+"-name") {
		add("other", "", 0, "  name: "+ruleID+"."+ext)
	}
	if chance(t, 25, label+"-ruleid") {
		// the file was copied from another rule: the legacy titles still carry THIS file's id
		add("other", "", 0, "rule_id: "+pick(t, []string{ruleID, "942999", "920100"}, label+"-rid"))
	}
	add("other", "", 0, "tests:")
	n := drawInt(t, 0, maxTests, label+"-ntests")
	// field layout: id only, title only, both, or mixed per test
	layout := pick(t, []string{"id", "id", "title", "both", "mixed"}, label+"-layout")
	kinds := map[string]bool{}
	// some files are already numbered correctly (then only the end of the file can be off)
	numbered := chance(t, 30, label+"-numbered")
	idForms := []string{"1", "7", "007", "42", "\"abc\"", "pine apple", "-3", "942100-1", "~"}
	for i := 1; i <= n; i++ {
		lay := layout
		if layout == "mixed" {
			lay = pick(t, []string{"id", "title", "both", "both-rev"}, label+"-lay")
		}
		kinds[lay] = true
		first := true
		item := func(key, val string) {
			ind := "    "
			if first {
				ind = "  - "
			}
			first = false
			sep := " "
			if !numbered && chance(t, 10, label+"-sep") {
				sep = pick(t, []string{"  ", "\t", " \t"}, label+"-sepkind")
			}
			text := ind + key + ":" + sep + val
			if val == "" {
				text = ind + key + ": "
			}
			kind := "id"
			if key == "test_title" {
				kind = "title"
			}
			add(kind, ind+key+":", i, text)
		}
		idv := pick(t, idForms, label+"-idv")
		if numbered {
			idv = fmt.Sprint(i)
		}
		tv := pick(t, []string{ruleID + "-" + fmt.Sprint(drawInt(t, 1, 9, label+"-tn")), "\"" + ruleID + "-3\"", "whatever", "920100-1"}, label+"-tv")
		if numbered {
			tv = ruleID + "-" + fmt.Sprint(i)
		}
		if i > 1 && chance(t, 6, label+"-docsep") {
			// a second YAML document in the same file: the tests of the file are still numbered through
			add("other", "", i-1, "---")
			add("other", "", i-1, "tests:")
		}
		descDone := false
		if chance(t, 12, label+"-descfirst") {
			// the description comes first, as a block scalar; id and title follow as siblings
			add("other", "", i, "  - desc: "+pick(t, []string{"|", ">-", "|-", ">"}, label+"-scalar"))
			add("other", "", i, "      "+drawWord(t, 2, 6, label+"-dl1")+" first line")
			if drawBool(t, label+"-dl2") {
				add("other", "", i, "        deeper "+drawWord(t, 1, 4, label+"-dl2w"))
			}
			first = false
			descDone = true
		}
		switch lay {
		case "id":
			item("test_id", idv)
		case "title":
			item("test_title", tv)
		case "both":
			item("test_id", idv)
			item("test_title", tv)
		case "both-rev":
			item("test_title", tv)
			item("test_id", idv)
		}
		ind := "    "
		if first {
			ind = "  - "
		}
		if !descDone {
			add("other", "", i, ind+"desc: \""+drawWord(t, 1, 6, label+"-desc")+"\"")
		}
		if chance(t, 60, label+"-stages") {
			add("other", "", i, "    stages:")
			add("other", "", i, "      - input:")
			add("other", "", i, "          uri: \"/"+drawWord(t, 1, 5, label+"-uri")+"?id="+fmt.Sprint(drawInt(t, 0, 99, label+"-q"))+"\"")
			if chance(t, 30, label+"-ws") {
				add("other", "", i, "   ")
			}
			if chance(t, 30, label+"-odd") {
				add("other", "", i, pick(t, []string{"          data: 'test identity: 5'", "          # numbering follows", "\t\ttabbed: yes  ", "          title: x",
					// prose inside a block scalar that merely ends with the words (no key, no value)
					"          data: >\n            a wrapped sentence that mentions the test_id:", "          data: >\n            the legacy field was called test_title:"}, label+"-oddl"))
			}
		}
	}
	if n > 0 && chance(t, 20, label+"-lasttrail") {
		// the last line with content ends in blanks (e.g. the tail of a block scalar): it is no id line and must stay as it is
		add("other", "", n, "          data: |")
		add("other", "", n, "            payload with trailing blanks  \t")
	}
	if chance(t, 4, label+"-big") {
		// a file larger than the scanner's buffer, made of distinct short lines
		for k := 0; k < 1800; k++ {
			add("other", "", n, fmt.Sprintf("      # filler line %04d %s", k, strings.Repeat("z", k%37)))
		}
	}
	sets := map[string]bool{}
	for k := range kinds {
		if k == "both-rev" {
			k = "both"
		}
		sets[k] = true
	}
	f.Mixed = len(sets) > 1
	// end of file
	switch drawInt(t, 0, 4, label+"-eof") {
	case 0:
		add("other", "", 0, "")
		add("other", "", 0, "")
	case 1:
		add("other", "", 0, "  ")
		add("other", "", 0, "\t")
	}
	f.CRLF = chance(t, 15, label+"-crlf")
	nl := "\n"
	if f.CRLF {
		nl = "\r\n"
	}
	var sb strings.Builder
	for _, l := range f.Lines {
		sb.WriteString(l.Text + nl)
	}
	content := sb.String()
	if chance(t, 25, label+"-nofinal") {
		content = strings.TrimSuffix(content, nl)
	}
	return f, content
}

// expected renders the file as a complete renumbering gives it. literal: the n-th id / n-th title gets n; otherwise a field gets its test's ordinal.
func (f *C13File) expected(literal bool) string {
	var out []string
	ids, titles := 0, 0
	for _, l := range f.Lines {
		switch l.Kind {
		case "id":
			ids++
			n := l.Test
			if literal {
				n = ids
			}
			out = append(out, fmt.Sprintf("%s %d", l.Prefix, n))
		case "title":
			titles++
			n := l.Test
			if literal {
				n = titles
			}
			out = append(out, fmt.Sprintf("%s %s-%d", l.Prefix, f.RuleID, n))
		default:
			out = append(out, l.Text)
		}
	}
	for len(out) > 0 && strings.TrimSpace(out[len(out)-1]) == "" {
		out = out[:len(out)-1]
	}
	return strings.Join(out, "\n") + "\n"
}

func genC13(t *rapid.T, tier string) (*World, any) {
	w := NewWorld()
	p := &C13Params{}
	p.All = chance(t, 40, "all")
	p.Github = chance(t, 25, "github")
	dir := "crs/tests/regression/tests/REQUEST-942-APPLICATION-ATTACK-SQLI/"
	n := 1
	if p.All {
		n = drawInt(t, 1, 3, "nfiles")
	}
	ids := []string{"942100", "942110", "942120"}
	if chance(t, 15, "zero-id") {
		ids[0] = pick(t, []string{"012345", "000900", "090000"}, "zero-id-v") // six digits are six digits
	}
	for i := 0; i < n; i++ {
		ext := pick(t, []string{"yaml", "yaml", "yml"}, "ext")
		maxTests := 6
		if tier == "thorough" {
			maxTests = 20
		}
		f, content := drawYamlFile(t, fmt.Sprintf("f%d", i), ids[i], ext, maxTests)
		f.Path = dir + ids[i] + "." + ext
		w.Put(f.Path, content)
		p.Files = append(p.Files, f)
	}
	if p.All && chance(t, 30, "sameid") {
		// plugins and rule sets keep their tests side by side: the same six digits in another directory is another test file
		f, content := drawYamlFile(t, "dupid", ids[0], "yml", 6)
		f.Path = "crs/tests/regression/tests/REQUEST-949-OTHER/" + ids[0] + ".yml"
		w.Put(f.Path, content)
		p.Files = append(p.Files, f)
	}
	w.Put("crs/regex-assembly/942100.ra", "foo\n")
	w.Put("crs/tests/regression/tests/REQUEST-942-APPLICATION-ATTACK-SQLI/notes.txt", "test_id: 99\n")
	for i := 0; i < 4; i++ {
		p.Plans = append(p.Plans, drawPlan(t, fmt.Sprintf("plan%d", i), true))
	}
	return w, p
}

func evalC13(sc *Scenario, sim *Sim) ([]Violation, bool, string) {
	var p C13Params
	if err := json.Unmarshal(sc.Params, &p); err != nil {
		machinery("params: %v", err)
	}
	sb := sim.NewSandbox(sc.World)
	defer sb.Close()
	var viol []Violation
	mixed := false
	for _, f := range p.Files {
		if f.Mixed {
			mixed = true
		}
	}
	tail := "uniform-fields"
	if mixed {
		tail = "mixed-fields"
	}
	add := func(oracle, what, msg, detail string) {
		viol = append(viol, Violation{Prop: "C13", Oracle: oracle, Sig: "C13/" + oracle + "/" + what + "/" + tail, Msg: msg, Detail: detail + "\nfiles:" + worldText(sc.World)})
	}
	argv := func(check bool) []string {
		var a []string
		if p.Github {
			a = append(a, "-o", "github")
		}
		a = append(a, "util", "renumber-tests")
		if check {
			a = append(a, "--check")
		}
		if p.All {
			return append(a, "--all")
		}
		return append(a, p.Files[0].RuleID)
	}
	read := func() map[string]string {
		m := map[string]string{}
		for _, f := range p.Files {
			m[f.Path] = string(sb.MustRead(f.Path))
		}
		return m
	}
	step := 0
	check := func(tag string) Result {
		before := sb.Snap()
		r := sb.Run(Step{Argv: argv(true), Cwd: "crs", Plan: p.Plans[step%len(p.Plans)]})
		step++
		if d := before.Diff(sb.Snap(), true); len(d) > 0 {
			add("check-never-writes", "disk", "`renumber-tests --check` ("+tag+") changed the tree: "+strings.Join(d, " "), "")
		}
		if wc := r.WriteCalls(); len(wc) > 0 {
			add("check-never-writes", "call", "`renumber-tests --check` ("+tag+") issued write calls: "+strings.Join(wc, "; "), "")
		}
		return r
	}
	renumber := func() Result {
		r := sb.Run(Step{Argv: argv(false), Cwd: "crs", Plan: p.Plans[step%len(p.Plans)]})
		step++
		return r
	}
	b0 := read()
	c0 := check("before")
	otherBefore := sb.Snap()
	r1 := renumber()
	b1 := read()
	otherAfter := sb.Snap()
	c1 := check("after")
	r2 := renumber()
	b2 := read()
	if r1.Exit != 0 {
		add("renumber", "fails", fmt.Sprintf("renumber-tests failed (exit %d) on a well-formed test file", r1.Exit), clip(r1.Stderr))
		return viol, true, ""
	}
	changedAny := false
	for _, f := range p.Files {
		lit, ord := f.expected(true), f.expected(false)
		got := b1[f.Path]
		if got != b0[f.Path] {
			changedAny = true
		}
		// the statement fixes the number, not the blanks between the colon and it
		sepRe := regexp.MustCompile(`(test_id:|test_title:)[ \t]+`)
		gotN := sepRe.ReplaceAllString(got, "$1 ")
		if gotN != lit && gotN != ord {
			what := "numbering"
			// classify: is it only the numbering that is off?
			gl, ll := strings.Split(got, "\n"), strings.Split(lit, "\n")
			if len(gl) != len(ll) {
				what = "line-count"
			} else {
				for i := range gl {
					if gl[i] != ll[i] && !strings.Contains(ll[i], "test_id:") && !strings.Contains(ll[i], "test_title:") {
						what = "other-line-changed"
					}
				}
			}
			add("numbering", what, fmt.Sprintf("%s is not numbered 1..n with every other line untouched and exactly one final newline", f.Path),
				fmt.Sprintf("got:\n%q\nexpected (n-th field gets n):\n%q\nor (field gets its test's ordinal):\n%q", got, lit, ord))
		}
	}
	for _, d := range otherBefore.Diff(otherAfter, false) {
		isTarget := false
		for _, f := range p.Files {
			if d == "~"+f.Path {
				isTarget = true
			}
		}
		if !isTarget {
			add("numbering", "other-file", "renumber-tests changed a file that is not a target: "+d, "")
		}
	}
	if r2.Exit != 0 {
		add("idempotent", "exit", fmt.Sprintf("the second renumber fails (exit %d)", r2.Exit), clip(r2.Stderr))
	}
	for _, f := range p.Files {
		if b1[f.Path] != b2[f.Path] {
			add("idempotent", "bytes", "renumbering twice differs from renumbering once: "+f.Path, fmt.Sprintf("once:\n%q\ntwice:\n%q", b1[f.Path], b2[f.Path]))
		}
	}
	if (c0.Exit != 0) != changedAny {
		add("check-agrees", "before", fmt.Sprintf("`--check` exited %d but the following renumber changed bytes: %v", c0.Exit, changedAny), clip(c0.Stdout)+clip(c0.Stderr))
	}
	if c1.Exit != 0 && bytes.Equal([]byte(fmt.Sprint(b1)), []byte(fmt.Sprint(b2))) {
		add("check-agrees", "after", fmt.Sprintf("`--check` fails (exit %d) on freshly renumbered files that a further renumber leaves untouched", c1.Exit), clip(c1.Stdout)+clip(c1.Stderr))
	}
	return viol, true, fmt.Sprintf("%x", sc.World.Hash())
}

func init() {
	register(&Property{
		ID: "C13", Level: "exploration",
		Rule: "scenario = 1-3 generated test files (.yaml / .yml; 0-6 tests; per file the tests carry test_id only, test_title only, both, or a mix; ids of any form - numbers, leading zeros, quoted strings, words with blanks, negative, null; legacy titles; other lines that contain no test_id:/test_title: key, incl. white-space-only lines and tabs; trailing blank / white-space lines, missing final newline, CRLF), addressed singly or with --all, text or -o github. History: check, renumber, check, renumber over one disk. Oracles: every file equals the reference rendering from the structure (n-th test_id is n, n-th test_title is <id>-n; where the tests of a file do not all carry the same fields the ordinal reading is accepted as well), other files untouched, second renumber is a byte no-op, --check writes nothing (snapshot with mtime + traced write calls) and fails exactly when the following renumber changes bytes. Distinct = distinct worlds.",
		Gen:  genC13, Eval: evalC13,
		QuickChecks: 1000, ThoroughChecks: 20000, Timeout: 20 * time.Second,
		Assumptions: []string{
			"a line keeps its content; its terminator may change from CRLF to LF",
			"honest note: no schedule or fault decides this property; the simulator contributes histories over a disk, the write monitor and replay",
		},
		RealStub: realStubDefault,
	})
}
