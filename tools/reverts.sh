#!/bin/bash
# Reverts every `fix:` commit of /repo in turn on a scratch clone and runs the check(s) that found the defect:
# a fixed finding suppresses nothing, so each revert must be reported again.
# usage: tools/reverts.sh [tier]
TIER="${1:-quick}"
declare -A CHECKS=(
 ["anchor IncludeRegex"]="C03 C10" ["apply suffix replacements"]="C03" ["expand definitions in a fixed order"]="C03"
 ["expand definitions in prefix"]="C07" ["keep format idempotent"]="C09" ["format fails instead of dropping"]="C10"
 ["format keeps the whole line"]="C10" ["delimit the @rx operand"]="C11 C12" ["find the id action"]="C11"
 ["renumber-tests only processes"]="C15" ["a chain offset beyond"]="C16" ["compare fails when"]="C16"
 ["read lines of any length"]="C17" ["number test IDs"]="C13" ["update-copyright finds"]="C14"
 ["self-update verifies the checksum"]="C20" ["does not panic"]="C20" ["cmdline block acts as a single unit"]="C04"
 ["commented out SecRule"]="C11" ["separator of an empty replacement list"]="C10" ["close the configuration file"]="C08"
 ["trailing carriage returns"]="C09")
ONLY="${REVERTS_ONLY:-}"
cd /repo || exit 2
git log --format='%h %s' | grep ' fix: ' | while read -r h subj; do
  [ -n "$ONLY" ] && ! echo "$subj" | grep -qE "$ONLY" && continue
  for key in "${!CHECKS[@]}"; do
    case "$subj" in *"$key"*)
      D="$(mktemp -d /var/tmp/revert.XXXXXX)"
      git clone -q /repo "$D/r" 2>/dev/null
      if (cd "$D/r" && git -c user.email=a@b -c user.name=x revert --no-commit "$h" >/dev/null 2>&1); then
        (cd "$D/r" && export GOFLAGS=-mod=mod GOPROXY=off GOSUMDB=off GOTOOLCHAIN=local && go build ./... >/dev/null 2>&1) || { echo "REVERT $h ($subj): does not build"; rm -rf "$D"; continue 2; }
        for id in ${CHECKS[$key]}; do
          out="$(VERIF_REPO="$D/r" /verif/check "$id" "$TIER" 2>&1)"; rc=$?
          sig="$(echo "$out" | grep 'signature:' | head -3 | sed 's/ *signature: //' | tr '\n' ' ')"
          echo "REVERT $h ($subj) -> $id exit=$rc $sig"
        done
      else
        echo "REVERT $h ($subj): revert conflicts with later fixes (skipped)"
      fi
      rm -rf "$D"
    ;; esac
  done
done
